// Package sig0 is an independent reference model of RFC 2931 transaction signatures (SIG(0)),
// written from the RFC text with the Go standard library only. It never imports the dns package.
//
//	RFC 2931 §3    the SIG(0) RR: owner root, type SIG (24), class ANY (255), TTL 0, type covered 0,
//	               labels 0, original TTL 0; it is the last RR of the additional section (only a TSIG may follow)
//	RFC 2931 §3.1  data = SIG RDATA less the signature | the DNS message, including its header, before the
//	               SIG(0) was added (so with the ARCOUNT the message had before)
//	RFC 2535 §4.1  SIG RDATA layout (type covered, algorithm, labels, original TTL, expiration, inception,
//	               key tag, signer's name — never compressed — and the signature)
//	RFC 2931 §3.1 / RFC 2535 §4.1.5: valid from inception to expiration, both ends included
//	RFC 3110       RSA/SHA-1 keys and signatures (PKCS #1 v1.5); RFC 5702: RSA/SHA-256, RSA/SHA-512
//	RFC 6605       ECDSA P-256/SHA-256, P-384/SHA-384: key = X | Y, signature = r | s (fixed width)
//	RFC 8080       Ed25519: key = 32 octets, signature = 64 octets over the unhashed data
//
// RFC 2931 §3.1 prepends the full *query* to the data of a *response*. The library's API has no way to
// pass the query and the property text does not ask for it ("the signed octets are the packed message
// followed by one SIG record"), so this model uses the request form for every message.
package sig0

import (
	"bytes"
	"crypto"
	"crypto/ecdsa"
	"crypto/ed25519"
	"crypto/elliptic"
	"crypto/rsa"
	"crypto/sha1"
	"crypto/sha256"
	"crypto/sha512"
	"encoding/base64"
	"encoding/binary"
	"errors"
	"fmt"
	"math/big"
	"strconv"
	"strings"
)

// Algorithm numbers (IANA DNS Security Algorithm Numbers).
const (
	RSASHA1         = 5
	RSASHA1NSEC3    = 7 // RSASHA1-NSEC3-SHA1: the same algorithm under another number (RFC 5155 §2)
	RSASHA256       = 8
	RSASHA512       = 10
	ECDSAP256SHA256 = 13
	ECDSAP384SHA384 = 14
	ED25519         = 15

	TypeSIG  = 24
	ClassANY = 255
)

// ---------------------------------------------------------------------------------------------
// wire walker

// skipName returns the offset just after the (possibly compressed) name at off. Pointers are not
// followed — RFC 1035 §4.1.4: a name ends with a zero octet or with a pointer.
func skipName(b []byte, off int) (int, error) {
	for {
		if off >= len(b) {
			return 0, errors.New("name runs past the end of the message")
		}
		c := int(b[off])
		switch c & 0xc0 {
		case 0x00:
			off++
			if c == 0 {
				return off, nil
			}
			off += c
		case 0xc0:
			if off+2 > len(b) {
				return 0, errors.New("pointer runs past the end of the message")
			}
			return off + 2, nil
		default:
			return 0, fmt.Errorf("label type %#x at offset %d", c&0xc0, off)
		}
	}
}

// plainName reads an uncompressed name at off and returns its wire octets.
func plainName(b []byte, off int) ([]byte, int, error) {
	start := off
	for {
		if off >= len(b) {
			return nil, 0, errors.New("name runs past the end")
		}
		c := int(b[off])
		if c&0xc0 != 0 {
			return nil, 0, fmt.Errorf("compressed or extended label %#x in a name that must not be compressed", c)
		}
		off++
		if c == 0 {
			if off-start > 255 {
				return nil, 0, errors.New("name longer than 255 octets")
			}
			return b[start:off], off, nil
		}
		off += c
	}
}

// Sig is the last RR of the additional section, read as a SIG RR.
type Sig struct {
	QD, AN, NS, AR int // counts as found in the header (AR includes the SIG)

	RRStart  int    // offset of the SIG RR's owner name = length of the message before the SIG was added
	Owner    []byte // owner name octets as found
	Type     uint16
	Class    uint16
	TTL      uint32
	RDLength int
	RDStart  int

	TypeCovered uint16
	Algorithm   uint8
	Labels      uint8
	OrigTTL     uint32
	Expiration  uint32
	Inception   uint32
	KeyTag      uint16
	Signer      []byte // uncompressed wire form
	SigOff      int    // offset of the signature field
	Signature   []byte
}

// Locate walks the message by its section counts and returns the last RR of the additional section,
// which must end exactly at the end of the buffer and is decoded as a SIG RR.
func Locate(b []byte) (*Sig, error) {
	if len(b) < 12 {
		return nil, errors.New("shorter than a header")
	}
	s := &Sig{
		QD: int(binary.BigEndian.Uint16(b[4:])),
		AN: int(binary.BigEndian.Uint16(b[6:])),
		NS: int(binary.BigEndian.Uint16(b[8:])),
		AR: int(binary.BigEndian.Uint16(b[10:])),
	}
	if s.AR == 0 {
		return nil, errors.New("empty additional section")
	}
	off := 12
	var err error
	for i := 0; i < s.QD; i++ {
		if off, err = skipName(b, off); err != nil {
			return nil, fmt.Errorf("question %d: %v", i, err)
		}
		off += 4
		if off > len(b) {
			return nil, fmt.Errorf("question %d runs past the end", i)
		}
	}
	n := s.AN + s.NS + s.AR
	for i := 0; i < n; i++ {
		start := off
		if off, err = skipName(b, off); err != nil {
			return nil, fmt.Errorf("record %d: %v", i, err)
		}
		if off+10 > len(b) {
			return nil, fmt.Errorf("record %d: fixed part runs past the end", i)
		}
		rdlen := int(binary.BigEndian.Uint16(b[off+8:]))
		if off+10+rdlen > len(b) {
			return nil, fmt.Errorf("record %d: RDATA runs past the end", i)
		}
		if i == n-1 {
			s.RRStart = start
			s.Owner = b[start:off]
			s.Type = binary.BigEndian.Uint16(b[off:])
			s.Class = binary.BigEndian.Uint16(b[off+2:])
			s.TTL = binary.BigEndian.Uint32(b[off+4:])
			s.RDLength = rdlen
			s.RDStart = off + 10
		}
		off += 10 + rdlen
	}
	if off != len(b) {
		return nil, fmt.Errorf("%d octets after the last record", len(b)-off)
	}
	rd := b[s.RDStart : s.RDStart+s.RDLength]
	if len(rd) < 18 {
		return nil, errors.New("SIG RDATA shorter than its fixed part")
	}
	s.TypeCovered = binary.BigEndian.Uint16(rd[0:])
	s.Algorithm = rd[2]
	s.Labels = rd[3]
	s.OrigTTL = binary.BigEndian.Uint32(rd[4:])
	s.Expiration = binary.BigEndian.Uint32(rd[8:])
	s.Inception = binary.BigEndian.Uint32(rd[12:])
	s.KeyTag = binary.BigEndian.Uint16(rd[16:])
	name, end, err := plainName(rd, 18)
	if err != nil {
		return nil, fmt.Errorf("signer name: %v", err)
	}
	s.Signer = name
	s.SigOff = s.RDStart + end
	s.Signature = rd[end:]
	return s, nil
}

// IsSIG0 reports whether the located RR has the fixed fields RFC 2931 §3 prescribes.
func (s *Sig) IsSIG0() error {
	switch {
	case !bytes.Equal(s.Owner, []byte{0}):
		return fmt.Errorf("owner %x is not the root", s.Owner)
	case s.Type != TypeSIG:
		return fmt.Errorf("type %d is not SIG", s.Type)
	case s.Class != ClassANY:
		return fmt.Errorf("class %d is not ANY", s.Class)
	case s.TTL != 0:
		return fmt.Errorf("TTL %d is not 0", s.TTL)
	case s.TypeCovered != 0:
		return fmt.Errorf("type covered %d is not 0", s.TypeCovered)
	case s.Labels != 0:
		return fmt.Errorf("labels %d is not 0", s.Labels)
	case s.OrigTTL != 0:
		return fmt.Errorf("original TTL %d is not 0", s.OrigTTL)
	}
	return nil
}

// Original returns the message as it was before the SIG RR was added: everything up to the SIG RR with
// ARCOUNT one less.
func Original(b []byte, s *Sig) []byte {
	o := append([]byte(nil), b[:s.RRStart]...)
	binary.BigEndian.PutUint16(o[10:], uint16(s.AR-1))
	return o
}

// Data returns the octets covered by the signature (RFC 2931 §3.1, request form).
func Data(b []byte, s *Sig) []byte {
	d := append([]byte(nil), b[s.RDStart:s.SigOff]...)
	return append(d, Original(b, s)...)
}

// RR builds the expected SIG RR without its signature but with the RDLENGTH it has once a signature of
// sigLen octets is appended.
func RR(alg uint8, expiration, inception uint32, keyTag uint16, signerWire []byte, sigLen int) []byte {
	rd := make([]byte, 18, 18+len(signerWire))
	rd[2] = alg
	binary.BigEndian.PutUint32(rd[8:], expiration)
	binary.BigEndian.PutUint32(rd[12:], inception)
	binary.BigEndian.PutUint16(rd[16:], keyTag)
	rd = append(rd, signerWire...)
	rr := []byte{0, 0, TypeSIG, 0, ClassANY, 0, 0, 0, 0, 0, 0}
	binary.BigEndian.PutUint16(rr[9:], uint16(len(rd)+sigLen))
	return append(rr, rd...)
}

// InWindow: valid from inception to expiration inclusive. Plain comparison; the 2106 wrap of the 32-bit
// clock is outside the enumerated windows.
func InWindow(s *Sig, now uint32) bool { return s.Inception <= now && now <= s.Expiration }

// ---------------------------------------------------------------------------------------------
// keys

// Key is a KEY RR read from its presentation form by this package's own reader.
type Key struct {
	Owner     string // as written
	Flags     uint16
	Protocol  uint8
	Algorithm uint8
	Public    []byte
}

// ParseKeyText reads "owner [ttl] [class] KEY flags protocol algorithm base64..." (one line).
func ParseKeyText(line string) (*Key, error) {
	f := strings.Fields(line)
	i := 0
	for i < len(f) && f[i] != "KEY" {
		i++
	}
	if i == 0 || i+4 >= len(f) {
		return nil, errors.New("not a KEY record")
	}
	k := &Key{Owner: f[0]}
	fl, err1 := strconv.ParseUint(f[i+1], 10, 16)
	pr, err2 := strconv.ParseUint(f[i+2], 10, 8)
	al, err3 := strconv.ParseUint(f[i+3], 10, 8)
	if err1 != nil || err2 != nil || err3 != nil {
		return nil, errors.New("bad KEY numbers")
	}
	k.Flags, k.Protocol, k.Algorithm = uint16(fl), uint8(pr), uint8(al)
	pub, err := base64.StdEncoding.DecodeString(strings.Join(f[i+4:], ""))
	if err != nil {
		return nil, err
	}
	k.Public = pub
	return k, nil
}

// RData returns the KEY RDATA octets.
func (k *Key) RData() []byte {
	b := []byte{byte(k.Flags >> 8), byte(k.Flags), k.Protocol, k.Algorithm}
	return append(b, k.Public...)
}

// Tag is the RFC 4034 Appendix B key tag (algorithms other than 1).
func (k *Key) Tag() uint16 {
	var ac uint32
	for i, c := range k.RData() {
		if i&1 == 0 {
			ac += uint32(c) << 8
		} else {
			ac += uint32(c)
		}
	}
	ac += ac >> 16 & 0xffff
	return uint16(ac & 0xffff)
}

// RSAPublic decodes RFC 3110 §2: exponent length (1 octet, or 0 followed by 2 octets), exponent, modulus.
func RSAPublic(pub []byte) (*rsa.PublicKey, error) {
	if len(pub) < 3 {
		return nil, errors.New("short RSA key")
	}
	el, off := int(pub[0]), 1
	if el == 0 {
		el, off = int(pub[1])<<8|int(pub[2]), 3
	}
	if el == 0 || off+el >= len(pub) {
		return nil, errors.New("bad RSA exponent length")
	}
	e := new(big.Int).SetBytes(pub[off : off+el])
	if !e.IsInt64() || e.Int64() > 1<<31-1 || e.Int64() < 2 {
		return nil, errors.New("RSA exponent out of range")
	}
	return &rsa.PublicKey{N: new(big.Int).SetBytes(pub[off+el:]), E: int(e.Int64())}, nil
}

// ECDSAPublic decodes RFC 6605 §4: Q = X | Y.
func ECDSAPublic(alg uint8, pub []byte) (*ecdsa.PublicKey, error) {
	var c elliptic.Curve
	switch alg {
	case ECDSAP256SHA256:
		c = elliptic.P256()
	case ECDSAP384SHA384:
		c = elliptic.P384()
	default:
		return nil, errors.New("not an ECDSA algorithm")
	}
	n := (c.Params().BitSize + 7) / 8
	if len(pub) != 2*n {
		return nil, fmt.Errorf("ECDSA key of %d octets, want %d", len(pub), 2*n)
	}
	return &ecdsa.PublicKey{Curve: c, X: new(big.Int).SetBytes(pub[:n]), Y: new(big.Int).SetBytes(pub[n:])}, nil
}

var (
	ErrSignature = errors.New("sig0 reference: signature does not verify")
	ErrAlgorithm = errors.New("sig0 reference: SIG algorithm differs from the key's or is unsupported")
	ErrSigner    = errors.New("sig0 reference: signer name is not the key's owner name")
)

// VerifyData checks sig over data with the key, per the algorithm's RFC.
func VerifyData(k *Key, alg uint8, data, sig []byte) error {
	if alg != k.Algorithm {
		return ErrAlgorithm
	}
	switch alg {
	case RSASHA1, RSASHA1NSEC3, RSASHA256, RSASHA512:
		pk, err := RSAPublic(k.Public)
		if err != nil {
			return err
		}
		var h crypto.Hash
		var d []byte
		switch alg {
		case RSASHA1, RSASHA1NSEC3:
			x := sha1.Sum(data)
			h, d = crypto.SHA1, x[:]
		case RSASHA256:
			x := sha256.Sum256(data)
			h, d = crypto.SHA256, x[:]
		default:
			x := sha512.Sum512(data)
			h, d = crypto.SHA512, x[:]
		}
		if rsa.VerifyPKCS1v15(pk, h, d, sig) != nil {
			return ErrSignature
		}
		return nil
	case ECDSAP256SHA256, ECDSAP384SHA384:
		pk, err := ECDSAPublic(alg, k.Public)
		if err != nil {
			return err
		}
		n := (pk.Curve.Params().BitSize + 7) / 8
		if len(sig) != 2*n {
			return ErrSignature
		}
		var d []byte
		if alg == ECDSAP256SHA256 {
			x := sha256.Sum256(data)
			d = x[:]
		} else {
			x := sha512.Sum384(data)
			d = x[:]
		}
		if !ecdsa.Verify(pk, d, new(big.Int).SetBytes(sig[:n]), new(big.Int).SetBytes(sig[n:])) {
			return ErrSignature
		}
		return nil
	case ED25519:
		if len(k.Public) != ed25519.PublicKeySize || len(sig) != ed25519.SignatureSize {
			return ErrSignature
		}
		if !ed25519.Verify(ed25519.PublicKey(k.Public), data, sig) {
			return ErrSignature
		}
		return nil
	}
	return ErrAlgorithm
}

// Verify is the whole receiver side: locate the SIG(0), check its fixed fields, the signer name against
// the key's owner (wire form, compared case-insensitively per RFC 4343), and the signature. The time
// window is checked separately with InWindow.
func Verify(b []byte, k *Key, keyOwnerWire []byte) (*Sig, error) {
	s, err := Locate(b)
	if err != nil {
		return nil, err
	}
	if err := s.IsSIG0(); err != nil {
		return s, err
	}
	if !bytes.Equal(lower(s.Signer), lower(keyOwnerWire)) {
		return s, ErrSigner
	}
	return s, VerifyData(k, s.Algorithm, Data(b, s), s.Signature)
}

// lower folds ASCII letters of a wire name. Label length octets are ≤ 63 and therefore never in A–Z.
func lower(w []byte) []byte {
	o := make([]byte, len(w))
	for i, c := range w {
		if c >= 'A' && c <= 'Z' {
			c += 'a' - 'A'
		}
		o[i] = c
	}
	return o
}
