// Package zone is the reference model of RFC 1035 §5 master files as restated by property C06:
// abstract zone *programs* (lists of lines), an interpreter giving the list of records a program
// denotes, and (print.go) a pretty-printer that renders a program to text under a vector of lexical
// choices. It is written from RFC 1035 §5.1, RFC 2308 §4 and BIND's documented $GENERATE semantics and
// shares no code with the library. Where the property statement does not fix a behaviour the
// interpreter says "unspecified" (Rec.OwnerUnspec, Rec.TTLUnspec, Result.Unspec) instead of choosing.
package zone

import (
	"fmt"
	"strconv"
	"strings"

	rn "verif/harness/ref/name"
)

// ---------------------------------------------------------------------------------------------
// abstract programs

type LineKind int

const (
	Record LineKind = iota
	Origin
	TTL
	Generate
	Include
)

type TokKind int

const (
	Word TokKind = iota // a bare word: decimal integer, dotted quad
	Name                // a domain name (relative, absolute or "@")
	Str                 // a <character-string>; S holds the raw octets
)

type Tok struct {
	Kind TokKind
	S    string
}

// Line is one entry of a master file.
//
//	Record:   [Owner] [TTL] [Class] Type RData      (ClassFirst: class is written before the TTL)
//	Origin:   $ORIGIN Name
//	TTL:      $TTL TTL
//	Generate: $GENERATE Range LHS [TTL] [Class] Type RHS
//	Include:  $INCLUDE File [Name]                   (AbsPath: the file is named by an absolute path)
type Line struct {
	Kind       LineKind
	HasOwner   bool
	Owner      string
	TTL        string // "" = omitted
	Class      string // "" = omitted; "IN", "CH", "HS"
	ClassFirst bool
	Type       string // "A", "NS", "CNAME", "SOA", "MX", "TXT"
	RData      []Tok
	Name       string // $ORIGIN argument; $INCLUDE origin argument ("" = none)
	Range      string // $GENERATE start-stop[/step]
	LHS, RHS   string // $GENERATE templates (RHS: blank-separated words)
	File       string // $INCLUDE: abstract file id (key of Program.Files)
	AbsPath    bool
}

type Program struct {
	Main  []Line
	Files map[string][]Line
}

// Config is what the caller of the parser configures.
type Config struct {
	Origin         string  // "" = none, otherwise an absolute name
	DefaultTTL     *uint32 // nil = not configured
	IncludeAllowed bool
	MaxDepth       int // documented include nesting supported by the parser (scan.go: 7); deeper is unspecified
}

const (
	ClassIN = 1
	ClassCH = 3
	ClassHS = 4

	TypeA     = 1
	TypeNS    = 2
	TypeCNAME = 5
	TypeSOA   = 6
	TypeMX    = 15
	TypeTXT   = 16

	MaxGenerate = 65536 // C07: "a $GENERATE yields at most 65536 records"
)

var classNum = map[string]uint16{"IN": ClassIN, "CH": ClassCH, "HS": ClassHS}
var typeNum = map[string]uint16{"A": TypeA, "NS": TypeNS, "CNAME": TypeCNAME, "SOA": TypeSOA, "MX": TypeMX, "TXT": TypeTXT}

// ---------------------------------------------------------------------------------------------
// denotation

// RData is the normalised abstract RDATA: A → IP; NS, CNAME → Names[0]; MX → Ints[0] (preference),
// Names[0]; SOA → Names[0..1] (mname, rname), Ints[0..4] (serial, refresh, retry, expire, minimum);
// TXT → Strs.
type RData struct {
	IP    [4]byte
	Ints  []uint32
	Names [][][]byte
	Strs  [][]byte
}

func (a RData) Equal(b RData) bool {
	if a.IP != b.IP || len(a.Ints) != len(b.Ints) || len(a.Names) != len(b.Names) || len(a.Strs) != len(b.Strs) {
		return false
	}
	for i := range a.Ints {
		if a.Ints[i] != b.Ints[i] {
			return false
		}
	}
	for i := range a.Names {
		if !rn.Equal(a.Names[i], b.Names[i]) {
			return false
		}
	}
	for i := range a.Strs {
		if string(a.Strs[i]) != string(b.Strs[i]) {
			return false
		}
	}
	return true
}

func (a RData) String() string {
	var sb strings.Builder
	fmt.Fprintf(&sb, "ip=%d.%d.%d.%d ints=%v names=[", a.IP[0], a.IP[1], a.IP[2], a.IP[3], a.Ints)
	for i, n := range a.Names {
		if i > 0 {
			sb.WriteByte(' ')
		}
		sb.WriteString(rn.Escape(n, true))
	}
	sb.WriteString("] strs=[")
	for i, s := range a.Strs {
		if i > 0 {
			sb.WriteByte(' ')
		}
		fmt.Fprintf(&sb, "%q", s)
	}
	sb.WriteString("]")
	return sb.String()
}

type Rec struct {
	Owner       [][]byte
	OwnerUnspec bool // the statement does not say which owner an omitted owner repeats here
	TTL         uint32
	TTLUnspec   bool // the statement does not say which TTL an omitted TTL takes here
	Class, Type uint16
	Data        RData
}

func (r Rec) String() string {
	o := rn.Escape(r.Owner, true)
	if r.OwnerUnspec {
		o = "<unspecified>"
	}
	t := strconv.FormatUint(uint64(r.TTL), 10)
	if r.TTLUnspec {
		t = "<unspecified>"
	}
	return fmt.Sprintf("{%s ttl=%s class=%d type=%d %s}", o, t, r.Class, r.Type, r.Data)
}

// Result: Recs are denoted in this order; then either the program ends (Err == "" && Unspec == ""),
// or it is invalid at that point (Err: the parser must report an error and return no further record),
// or the statement fixes nothing from that point on (Unspec).
type Result struct {
	Recs    []Rec
	Err     string
	ErrKind string // missing-ttl | no-origin | range | generate-template | include-off | include-missing | other
	ErrLine *Line  // the line that is invalid
	Unspec  string
}

// ParseTTL reads an RFC 2308 §4 / BIND TTL: decimal seconds, or a sum of <digits><unit> terms with
// units s m h d w in either case (a trailing bare number counts seconds).
func ParseTTL(s string) (uint32, bool) {
	if s == "" {
		return 0, false
	}
	var total, n uint64
	digits := false
	for i := 0; i < len(s); i++ {
		c := s[i]
		var f uint64
		switch c {
		case '0', '1', '2', '3', '4', '5', '6', '7', '8', '9':
			n = n*10 + uint64(c-'0')
			digits = true
			if n > 1<<40 {
				return 0, false
			}
			continue
		case 's', 'S':
			f = 1
		case 'm', 'M':
			f = 60
		case 'h', 'H':
			f = 3600
		case 'd', 'D':
			f = 86400
		case 'w', 'W':
			f = 604800
		default:
			return 0, false
		}
		if !digits {
			return 0, false
		}
		total += n * f
		n, digits = 0, false
		if total > 1<<40 {
			return 0, false
		}
	}
	total += n
	if total > 0xffffffff {
		return 0, false
	}
	return uint32(total), true
}

type ttlVal struct {
	set    bool
	v      uint32
	unspec bool
}

type state struct {
	origin    [][]byte
	hasOrigin bool

	owner      [][]byte
	ownerKnown bool

	dollar ttlVal // $TTL value in force
	last   ttlVal // most recently stated TTL

	sawDollar, sawExplicit bool // this file (or something it pulled in) stated a $TTL / an explicit TTL
}

type interp struct {
	p   *Program
	cfg Config
	res Result
}

func (s *state) resolve(n string) ([][]byte, string) {
	if n == "@" {
		if !s.hasOrigin {
			return nil, "@ with no origin"
		}
		return s.origin, ""
	}
	p := rn.Parse(n)
	if !p.OK || p.BigDDD {
		return nil, "bad name " + strconv.Quote(n)
	}
	labels := p.Labels
	if !p.FQDN {
		if !s.hasOrigin {
			return nil, "relative name " + strconv.Quote(n) + " with no origin"
		}
		labels = append(append([][]byte(nil), labels...), s.origin...)
	}
	if !rn.ValidWire(labels) {
		return nil, "name too long " + strconv.Quote(n)
	}
	return labels, ""
}

// Interpret gives the denotation of p under cfg.
func Interpret(p *Program, cfg Config) Result {
	in := &interp{p: p, cfg: cfg}
	st := &state{}
	if cfg.Origin != "" {
		q := rn.Parse(cfg.Origin)
		if !q.OK || q.BigDDD || !rn.ValidWire(q.Labels) {
			in.res.Err = "bad initial origin"
			return in.res
		}
		st.origin, st.hasOrigin = q.Labels, true
	}
	in.file(p.Main, st, 0)
	return in.res
}

func (in *interp) fail(l *Line, kind, format string, a ...any) bool {
	in.res.Err = fmt.Sprintf(format, a...)
	in.res.ErrKind = kind
	in.res.ErrLine = l
	return true
}

func nameKind(e string) string {
	if strings.Contains(e, "no origin") {
		return "no-origin"
	}
	return "other"
}

func (in *interp) unspec(format string, a ...any) bool {
	in.res.Unspec = fmt.Sprintf(format, a...)
	return true
}

// omittedTTL: "$TTL value, else the most recently stated TTL, else the configured default".
// unspec: the statement leaves open which TTL applies (there is one under every reading);
// stop: under one reading there is a TTL, under another the line is invalid.
func (in *interp) omittedTTL(st *state) (v uint32, unspec, stop bool, err string) {
	definite := st.dollar.set || st.last.set || in.cfg.DefaultTTL != nil
	open := func() (uint32, bool, bool, string) { return 0, definite, !definite, "" }
	switch {
	case st.dollar.unspec:
		return open()
	case st.dollar.set:
		return st.dollar.v, false, false, ""
	case st.last.unspec:
		return open()
	case st.last.set:
		return st.last.v, false, false, ""
	case in.cfg.DefaultTTL != nil:
		return *in.cfg.DefaultTTL, false, false, ""
	}
	return 0, false, false, "omitted TTL with no $TTL, no previous TTL and no configured default"
}

func parseUint(s string, bits int) (uint32, bool) {
	if s == "" {
		return 0, false
	}
	for i := 0; i < len(s); i++ {
		if s[i] < '0' || s[i] > '9' {
			return 0, false
		}
	}
	v, err := strconv.ParseUint(s, 10, bits)
	return uint32(v), err == nil
}

func parseIPv4(s string) (ip [4]byte, ok bool) {
	parts := strings.Split(s, ".")
	if len(parts) != 4 {
		return ip, false
	}
	for i, p := range parts {
		v, ok := parseUint(p, 8)
		if !ok || (len(p) > 1 && p[0] == '0') {
			return ip, false
		}
		ip[i] = byte(v)
	}
	return ip, true
}

func (in *interp) rdata(st *state, typ uint16, toks []Tok) (RData, string) {
	var d RData
	name := func(i int) string {
		if toks[i].Kind == Str {
			return "character-string where a name is expected"
		}
		l, e := st.resolve(toks[i].S)
		if e != "" {
			return e
		}
		d.Names = append(d.Names, l)
		return ""
	}
	num := func(i, bits int) string {
		v, ok := parseUint(toks[i].S, bits)
		if !ok || toks[i].Kind == Str {
			return "bad number " + strconv.Quote(toks[i].S)
		}
		d.Ints = append(d.Ints, v)
		return ""
	}
	want := map[uint16]int{TypeA: 1, TypeNS: 1, TypeCNAME: 1, TypeMX: 2, TypeSOA: 7}
	if n, ok := want[typ]; ok && len(toks) != n {
		return d, fmt.Sprintf("type %d wants %d RDATA tokens, have %d", typ, n, len(toks))
	}
	switch typ {
	case TypeA:
		ip, ok := parseIPv4(toks[0].S)
		if !ok || toks[0].Kind == Str {
			return d, "bad IPv4 address " + strconv.Quote(toks[0].S)
		}
		d.IP = ip
	case TypeNS, TypeCNAME:
		if e := name(0); e != "" {
			return d, e
		}
	case TypeMX:
		if e := num(0, 16); e != "" {
			return d, e
		}
		if e := name(1); e != "" {
			return d, e
		}
	case TypeSOA:
		for i := 0; i < 2; i++ {
			if e := name(i); e != "" {
				return d, e
			}
		}
		for i := 2; i < 7; i++ {
			if e := num(i, 32); e != "" {
				return d, e
			}
		}
	case TypeTXT:
		if len(toks) == 0 {
			return d, "TXT without strings"
		}
		for _, t := range toks {
			if len(t.S) > 255 {
				return d, "character-string longer than 255 octets"
			}
			d.Strs = append(d.Strs, []byte(t.S))
		}
	default:
		return d, "type not modelled"
	}
	return d, ""
}

// record interprets one record line; generated: the line comes out of $GENERATE.
func (in *interp) record(st *state, l *Line, generated bool) bool {
	var r Rec
	if l.HasOwner {
		o, e := st.resolve(l.Owner)
		if e != "" {
			return in.fail(l, nameKind(e), "owner: %s", e)
		}
		st.owner, st.ownerKnown = o, true
		r.Owner = o
	} else if st.ownerKnown {
		r.Owner = st.owner
	} else {
		r.OwnerUnspec = true
	}
	if l.TTL != "" {
		v, ok := ParseTTL(l.TTL)
		if !ok {
			return in.fail(l, "other", "bad TTL %q", l.TTL)
		}
		r.TTL = v
		st.last = ttlVal{set: true, v: v}
		st.sawExplicit = true
	} else {
		v, u, stop, e := in.omittedTTL(st)
		if generated && (e != "" || stop) {
			// a generated record is a record of the zone: with a TTL in force ($TTL, last stated, configured
			// default) it takes that one like any other record. With none in force the library falls back to
			// 3600 where an ordinary line is an error; the statement does not say which — left open.
			v, u, e, stop = 0, true, "", false
		}
		if e != "" {
			return in.fail(l, "missing-ttl", "%s", e)
		}
		if stop {
			return in.unspec("omitted TTL after an $INCLUDE/$GENERATE that stated the only TTL so far")
		}
		r.TTL, r.TTLUnspec = v, u
	}
	r.Class = ClassIN
	if l.Class != "" {
		c, ok := classNum[strings.ToUpper(l.Class)]
		if !ok {
			return in.fail(l, "other", "bad class %q", l.Class)
		}
		r.Class = c
	}
	t, ok := typeNum[strings.ToUpper(l.Type)]
	if !ok {
		return in.fail(l, "other", "type %q not modelled", l.Type)
	}
	r.Type = t
	d, e := in.rdata(st, t, l.RData)
	if e != "" {
		return in.fail(l, nameKind(e), "rdata: %s", e)
	}
	r.Data = d
	in.res.Recs = append(in.res.Recs, r)
	return false
}

// ParseRange reads "start-stop[/step]" (BIND: non-negative integers, start ≤ stop, step ≥ 1).
func ParseRange(s string) (start, stop, step int64, ok bool) {
	step = 1
	if i := strings.IndexByte(s, '/'); i >= 0 {
		v, k := parseUint(s[i+1:], 31)
		if !k || v == 0 {
			return 0, 0, 0, false
		}
		step = int64(v)
		s = s[:i]
	}
	i := strings.IndexByte(s, '-')
	if i < 0 {
		return 0, 0, 0, false
	}
	a, k1 := parseUint(s[:i], 31)
	b, k2 := parseUint(s[i+1:], 31)
	if !k1 || !k2 || a > b {
		return 0, 0, 0, false
	}
	return int64(a), int64(b), step, true
}

// Expand replaces, in a $GENERATE template, "$" by the iterator value in decimal, "${offset[,width[,base]]}"
// by value+offset printed in base d/o/x/X zero-padded to width, and "$$" by a literal "$"; a backslash
// keeps itself and the next character as they are (so "\$" stays an escaped, literal dollar).
// status: "" ok, "neg" a negative value would have to be printed (not fixed by the statement), anything
// else is a syntax error.
func Expand(t string, it int64) (string, string) {
	var o strings.Builder
	for i := 0; i < len(t); i++ {
		c := t[i]
		switch {
		case c == '\\':
			o.WriteByte(c)
			if i+1 < len(t) {
				i++
				o.WriteByte(t[i])
			}
		case c != '$':
			o.WriteByte(c)
		case i+1 < len(t) && t[i+1] == '$':
			o.WriteByte('$')
			i++
		case i+1 < len(t) && t[i+1] == '{':
			end := strings.IndexByte(t[i+2:], '}')
			if end < 0 {
				return "", "unterminated ${"
			}
			f := strings.Split(t[i+2:i+2+end], ",")
			if len(f) > 3 {
				return "", "too many modifier fields"
			}
			off, err := strconv.ParseInt(f[0], 10, 32)
			if err != nil {
				return "", "bad offset"
			}
			width, base := 0, "d"
			if len(f) > 1 {
				w, ok := parseUint(f[1], 8)
				if !ok {
					return "", "bad width"
				}
				width = int(w)
			}
			if len(f) > 2 {
				base = f[2]
			}
			v := it + off
			if v < 0 || v > 1<<31-1 {
				return "", "neg" // outside 0..2^31-1: not fixed by the statement
			}
			var s string
			switch base {
			case "d":
				s = strconv.FormatInt(v, 10)
			case "o":
				s = strconv.FormatInt(v, 8)
			case "x":
				s = strconv.FormatInt(v, 16)
			case "X":
				s = strings.ToUpper(strconv.FormatInt(v, 16))
			default:
				return "", "bad base"
			}
			for len(s) < width {
				s = "0" + s
			}
			o.WriteString(s)
			i += 2 + end
		default:
			o.WriteString(strconv.FormatInt(it, 10))
		}
	}
	return o.String(), ""
}

// WordsToRData turns the blank-separated words of an expanded $GENERATE right-hand side into tokens.
func WordsToRData(typ string, rhs string) []Tok {
	var toks []Tok
	for i, w := range strings.Fields(rhs) {
		k := Word
		switch strings.ToUpper(typ) {
		case "NS", "CNAME":
			k = Name
		case "MX":
			if i == 1 {
				k = Name
			}
		case "SOA":
			if i < 2 {
				k = Name
			}
		case "TXT":
			k = Str
		}
		toks = append(toks, Tok{k, w})
	}
	return toks
}

func (in *interp) generate(st *state, l *Line) bool {
	start, stop, step, ok := ParseRange(l.Range)
	if !ok {
		return in.fail(l, "range", "bad $GENERATE range %q", l.Range)
	}
	if (stop-start)/step+1 > MaxGenerate {
		return in.fail(l, "range", "$GENERATE range %q yields more than %d records", l.Range, MaxGenerate)
	}
	// a modifier that leaves 0..2^31-1 anywhere in the range puts the whole directive outside the limits
	// the statement speaks about (BIND and the library reject it as a whole)
	for _, it := range []int64{start, start + (stop-start)/step*step, stop} {
		_, e1 := Expand(l.LHS, it)
		_, e2 := Expand(l.RHS, it)
		if e1 == "neg" || e2 == "neg" {
			return in.unspec("$GENERATE modifier yields a value outside 0..2^31-1")
		}
	}
	sub := *st // own owner/TTL carry; origin is the current one
	for it := start; it <= stop; it += step {
		lhs, e1 := Expand(l.LHS, it)
		rhs, e2 := Expand(l.RHS, it)
		if e1 != "" || e2 != "" {
			return in.fail(l, "generate-template", "$GENERATE template: %s%s", e1, e2)
		}
		gl := Line{Kind: Record, HasOwner: true, Owner: lhs, TTL: l.TTL, Class: l.Class, Type: l.Type, RData: WordsToRData(l.Type, rhs)}
		if in.record(&sub, &gl, true) {
			if in.res.ErrLine == &gl {
				in.res.ErrLine = l
			}
			return true
		}
	}
	// Whether the generated lines' owner and TTL count as "previous owner" / "most recently stated TTL"
	// for the lines after the directive is not fixed by the statement.
	st.ownerKnown = false
	if l.TTL != "" {
		st.last.unspec = true
		st.sawExplicit = true
	}
	return false
}

func (in *interp) include(st *state, l *Line, depth int) bool {
	if !in.cfg.IncludeAllowed {
		return in.fail(l, "include-off", "$INCLUDE not allowed")
	}
	sub := *st
	sub.ownerKnown = false // previous owner at the start of an included file: not fixed
	sub.sawDollar, sub.sawExplicit = false, false
	if l.Name != "" {
		o, e := st.resolve(l.Name)
		if e != "" {
			return in.fail(l, nameKind(e), "$INCLUDE origin: %s", e)
		}
		sub.origin, sub.hasOrigin = o, true
	}
	lines, ok := in.p.Files[l.File]
	if !ok {
		return in.fail(l, "include-missing", "$INCLUDE of a file that does not exist: %q", l.File)
	}
	if depth+1 > in.cfg.MaxDepth {
		return in.unspec("$INCLUDE nesting deeper than %d", in.cfg.MaxDepth)
	}
	if in.file(lines, &sub, depth+1) {
		return true
	}
	// the includer's origin is unchanged (st.origin untouched). Previous owner and TTL carry after the
	// included file: not fixed by the statement (DESIGN C06 "Not demanded").
	st.ownerKnown = false
	if sub.sawDollar {
		st.dollar.unspec = true
		st.sawDollar = true
	}
	if sub.sawExplicit {
		st.last.unspec = true
		st.sawExplicit = true
	}
	return false
}

// file interprets lines; it returns true when interpretation stops (error or unspecified).
func (in *interp) file(lines []Line, st *state, depth int) bool {
	for i := range lines {
		l := &lines[i]
		switch l.Kind {
		case Record:
			if in.record(st, l, false) {
				return true
			}
		case Origin:
			o, e := st.resolve(l.Name)
			if e != "" {
				return in.fail(l, nameKind(e), "$ORIGIN: %s", e)
			}
			st.origin, st.hasOrigin = o, true
		case TTL:
			v, ok := ParseTTL(l.TTL)
			if !ok {
				return in.fail(l, "other", "bad $TTL %q", l.TTL)
			}
			st.dollar = ttlVal{set: true, v: v}
			st.sawDollar = true
		case Generate:
			if in.generate(st, l) {
				return true
			}
		case Include:
			if in.include(st, l, depth) {
				return true
			}
		}
	}
	return false
}
