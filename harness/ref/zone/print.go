package zone

import (
	"fmt"
	"strings"
)

// ---------------------------------------------------------------------------------------------
// pretty-printer with a lexical choice vector
//
// The plain rendering of a line is: fields separated by one space, keywords in upper case, every
// <character-string> quoted, no comments, no parentheses, one "\n" at the end; an omitted owner is a
// single leading space. A *deviation* changes one lexical choice of one line; RFC 1035 §5.1 (and the C06
// statement) say that none of them changes the denoted records.

type DevKind int

const (
	LowerDirective DevKind = iota // $origin, $ttl, $generate, $include
	LowerClass                    // in, ch
	LowerType                     // a, mx, ...
	BlankBefore                   // Arg 0: empty line; 1: line of blanks; 2: comment-only line; 3: blanks + comment
	BlankAfter                    // same Args, after the line
	Comment                       // Arg 0: " ; text"; 1: ";text" glued to the last token; 2: comment full of special characters
	Paren                         // Arg = pos*NParenVariants + variant; "(" after RDATA token pos (0 = after the type)
	Blanks                        // Arg 0: TAB separators; 1: two spaces; 2: trailing blanks; 3: mixed " \t"
	Unquote                       // Arg j: j-th Str token written without quotes (only where legal)
	SwapTTLClass                  // class/TTL in the other order (only when both are present)
	HeaderParen                   // "(" directly behind the owner, so that TTL, class and type stand inside the parentheses: Arg 0 on one line; 1 a line break behind each of them; 2 a comment and a line break; 3 a comment glued onto each of them and a line break
	nDevKinds
)

// Paren variants: how the line continues after "(".
const (
	ParenIndent       = iota // "(\n" + blank, rest on one line, " )"
	ParenComment             // "( ; c\n" + blank, rest on one line, " )"
	ParenCol0                // "(\n", continuation starts in column 0
	ParenEachIndent          // a line break after every remaining token, continuation lines indented
	ParenEachCol0            // a line break after every remaining token, continuation lines in column 0
	ParenCloseOwnLine        // "(\n" + blank ... "\n)" closing parenthesis on its own line
	ParenEachComment         // a comment and a line break after every remaining token, indented
	ParenEachGlued           // the same with the comment glued onto the token (no blank before the semicolon)
	NParenVariants
)

type Dev struct {
	Line int
	Kind DevKind
	Arg  int
}

func (d Dev) String() string {
	names := [...]string{"lower-directive", "lower-class", "lower-type", "blank-before", "blank-after", "comment", "paren", "blanks", "unquote", "swap-ttl-class", "header-paren"}
	if d.Kind == Paren {
		return fmt.Sprintf("L%d:paren(after %d, variant %d)", d.Line, d.Arg/NParenVariants, d.Arg%NParenVariants)
	}
	return fmt.Sprintf("L%d:%s(%d)", d.Line, names[d.Kind], d.Arg)
}

// Style: Dir is the directory absolute $INCLUDE paths are rooted in ("" → "/file").
type Style struct {
	Dir  string
	Devs []Dev
}

// CanUnquote: a character-string may be written without quotes when it is a non-empty run of
// characters none of which is special in a master file.
func CanUnquote(s string) bool {
	if s == "" {
		return false
	}
	for i := 0; i < len(s); i++ {
		c := s[i]
		if !(c >= 'a' && c <= 'z' || c >= 'A' && c <= 'Z' || c >= '0' && c <= '9' || c == '-' || c == '_' || c == '.' || c == '=' || c == '/' || c == ':') {
			return false
		}
	}
	return true
}

// Quote writes a character-string between double quotes (RFC 1035 §5.1: \" \\ and \DDD inside).
func Quote(s string) string {
	var o strings.Builder
	o.WriteByte('"')
	for i := 0; i < len(s); i++ {
		c := s[i]
		switch {
		case c == '"' || c == '\\':
			o.WriteByte('\\')
			o.WriteByte(c)
		case c < ' ' || c > '~':
			fmt.Fprintf(&o, "\\%03d", c)
		default:
			o.WriteByte(c)
		}
	}
	o.WriteByte('"')
	return o.String()
}

// Deviations lists every single deviation applicable to lines.
func Deviations(lines []Line) []Dev {
	var ds []Dev
	for i := range lines {
		l := &lines[i]
		add := func(k DevKind, args ...int) {
			for _, a := range args {
				ds = append(ds, Dev{i, k, a})
			}
		}
		add(BlankBefore, 0, 1, 2, 3)
		if i == len(lines)-1 {
			add(BlankAfter, 0, 1, 2, 3)
		}
		add(Comment, 0, 1, 2)
		add(Blanks, 0, 1, 2, 3)
		if l.Kind != Record {
			add(LowerDirective, 0)
		}
		if l.Kind == Record || l.Kind == Generate {
			if l.Class != "" {
				add(LowerClass, 0)
			}
			add(LowerType, 0)
			if l.Class != "" && l.TTL != "" {
				add(SwapTTLClass, 0)
			}
		}
		if l.Kind == Record && l.HasOwner {
			add(HeaderParen, 0, 1, 2, 3)
		}
		if l.Kind == Record {
			for pos := 0; pos <= len(l.RData); pos++ {
				for v := 0; v < NParenVariants; v++ {
					add(Paren, pos*NParenVariants+v)
				}
			}
			j := 0
			for _, t := range l.RData {
				if t.Kind == Str {
					if CanUnquote(t.S) {
						add(Unquote, j)
					}
					j++
				}
			}
		}
	}
	return ds
}

const specialComment = `; "x ( y ) \ $TTL 9 @ ; z`

func blankLine(arg int) string {
	switch arg {
	case 0:
		return "\n"
	case 1:
		return " \t \n"
	case 2:
		return "; a comment line\n"
	}
	return "  ; an indented comment line ( \"\n"
}

// Render renders lines under st. ok is false when the deviations conflict (two of the same kind on one
// line, or one that does not apply).
func Render(lines []Line, st Style) (text string, ok bool) {
	var out strings.Builder
	for i := range lines {
		l := &lines[i]
		var have [nDevKinds]bool
		var arg [nDevKinds]int
		for _, d := range st.Devs {
			if d.Line != i {
				continue
			}
			if have[d.Kind] {
				return "", false
			}
			have[d.Kind], arg[d.Kind] = true, d.Arg
		}
		sep := " "
		if have[Blanks] {
			switch arg[Blanks] {
			case 0:
				sep = "\t"
			case 1:
				sep = "  "
			case 3:
				sep = " \t"
			}
		}
		kw := func(s string, k DevKind) string {
			if have[k] {
				return strings.ToLower(s)
			}
			return s
		}
		// header fields
		var f []string
		hdr := func() bool { // [ttl] [class] type in the chosen order
			first, second := l.TTL, ""
			if l.Class != "" {
				second = kw(l.Class, LowerClass)
			}
			swap := l.ClassFirst
			if have[SwapTTLClass] {
				if l.TTL == "" || l.Class == "" {
					return false
				}
				swap = !swap
			}
			if swap {
				first, second = second, first
			}
			for _, x := range []string{first, second} {
				if x != "" {
					f = append(f, x)
				}
			}
			f = append(f, kw(l.Type, LowerType))
			return true
		}
		var rd []string // RDATA tokens (records only)
		switch l.Kind {
		case Record:
			if have[LowerDirective] {
				return "", false
			}
			if l.HasOwner {
				f = append(f, l.Owner)
			} else {
				f = append(f, "") // leading blank
			}
			if !hdr() {
				return "", false
			}
			j := 0
			for _, t := range l.RData {
				s := t.S
				if t.Kind == Str {
					if have[Unquote] && arg[Unquote] == j {
						if !CanUnquote(s) {
							return "", false
						}
					} else {
						s = Quote(s)
					}
					j++
				}
				rd = append(rd, s)
			}
			if have[Unquote] && arg[Unquote] >= j {
				return "", false
			}
		case Origin:
			f = append(f, kw("$ORIGIN", LowerDirective), l.Name)
		case TTL:
			f = append(f, kw("$TTL", LowerDirective), l.TTL)
		case Generate:
			f = append(f, kw("$GENERATE", LowerDirective), l.Range, l.LHS)
			if !hdr() {
				return "", false
			}
			f = append(f, strings.Fields(l.RHS)...)
		case Include:
			path := l.File
			if l.AbsPath {
				path = st.Dir + "/" + l.File
			}
			f = append(f, kw("$INCLUDE", LowerDirective), path)
			if l.Name != "" {
				f = append(f, l.Name)
			}
		}
		if l.Kind != Record && (have[Paren] || have[Unquote]) {
			return "", false
		}
		if l.Kind != Record && l.Kind != Generate && (have[LowerClass] || have[LowerType] || have[SwapTTLClass]) {
			return "", false
		}
		if have[LowerClass] && l.Class == "" {
			return "", false
		}
		if have[BlankBefore] {
			out.WriteString(blankLine(arg[BlankBefore]))
		}
		headerParen := false
		if have[HeaderParen] {
			if l.Kind != Record || !l.HasOwner || have[Paren] {
				return "", false
			}
			headerParen = true
			out.WriteString(f[0] + sep + "(")
			for _, t := range f[1:] {
				out.WriteString(sep + t)
				switch arg[HeaderParen] {
				case 1:
					out.WriteString("\n")
				case 2:
					out.WriteString(sep + "; c ) (\n")
				case 3:
					out.WriteString(";c ) (\n")
				}
			}
		} else {
			out.WriteString(strings.Join(f, sep))
		}
		// RDATA, possibly parenthesised
		if l.Kind == Record {
			open, variant := -1, 0
			if have[Paren] {
				open, variant = arg[Paren]/NParenVariants, arg[Paren]%NParenVariants
				if open > len(rd) {
					return "", false
				}
			}
			justOpened := false
			indent := sep
			if variant == ParenCol0 || variant == ParenEachCol0 {
				indent = ""
			}
			brk := func() {
				if variant == ParenComment || variant == ParenEachComment {
					out.WriteString(sep + "; c ) (")
				}
				if variant == ParenEachGlued && !justOpened {
					out.WriteString(";c ) (")
				}
				justOpened = false
				out.WriteString("\n" + indent)
			}
			inParen := false
			for k := 0; k <= len(rd); k++ {
				if k == open {
					out.WriteString(sep + "(")
					justOpened = true
					brk()
					inParen = true
					if k < len(rd) {
						out.WriteString(rd[k])
					}
					continue
				}
				if k == len(rd) {
					break
				}
				each := variant == ParenEachIndent || variant == ParenEachCol0 || variant == ParenEachComment || variant == ParenEachGlued
				if inParen && each {
					brk()
					out.WriteString(rd[k])
				} else {
					out.WriteString(sep + rd[k])
				}
			}
			if inParen {
				if variant == ParenCloseOwnLine {
					out.WriteString("\n)")
				} else {
					out.WriteString(sep + ")")
				}
			}
			if headerParen {
				out.WriteString(sep + ")")
			}
		}
		if have[Blanks] && arg[Blanks] == 2 {
			out.WriteString(" \t ")
		}
		if have[Comment] {
			switch arg[Comment] {
			case 0:
				out.WriteString(sep + "; a comment")
			case 1:
				out.WriteString(";glued comment")
			case 2:
				out.WriteString(sep + specialComment)
			}
		}
		out.WriteString("\n")
		if have[BlankAfter] {
			if i != len(lines)-1 {
				return "", false
			}
			out.WriteString(blankLine(arg[BlankAfter]))
		}
	}
	return out.String(), true
}
