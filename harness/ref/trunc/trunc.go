// Package trunc is the post-condition of Msg.Truncate exactly as property C09 states it, written over
// abstract observations (how many records of each section survived, flags, octet counts). It does not
// know how the library walks the records and shares no code with it: the octet counts it is given are
// measured by packing messages, never by the library's length estimate.
package trunc

import "fmt"

// Floor: sizes below 512 count as 512 (RFC 6891 §6.2.3 / RFC 1035 §4.2.1).
const Floor = 512

// Before describes the reply handed to Truncate.
type Before struct {
	NA, NN, NX int  // records in the answer, authority and additional section; the OPT record is not counted in NX
	HasOPT     bool // the additional section carries one OPT record
	TC         bool // TC bit before the call
	Base       int  // octets of header + question (+ OPT): what Truncate may never remove
	Own        int  // octets of the whole message packed under its own Compress setting
	Compressed int  // octets of the whole message packed with name compression
	Exact      bool // escape-free names and common types only: the statement's last clause applies
	// Prefix(k) = octets of the compressed message that holds the first k records in section order
	// (answer, authority, additional without the OPT) followed by the OPT, 0 ≤ k ≤ NA+NN+NX.
	Prefix func(k int) int
}

// After is what was observed after Truncate(size).
type After struct {
	NotPrefix  string // non-empty: some section is not a prefix (same records, same order) of the original
	KA, KN, KX int    // records left in answer, authority, additional (OPT not counted)
	OPTs       int    // how often the original OPT record occurs in the additional section
	TC         bool
	Packed     int // octets produced by packing the truncated message as Truncate left it
	PackErr    error
}

type Violation struct{ Key, Text string }

// S is the effective limit for a requested size.
func S(size int) int {
	if size < Floor {
		return Floor
	}
	return size
}

// Check returns every clause of the statement that the observation violates.
func Check(b Before, size int, a After) []Violation {
	var v []Violation
	add := func(key, f string, args ...any) { v = append(v, Violation{key, fmt.Sprintf(f, args...)}) }
	lim := S(size)

	// "each section retains a prefix of its original records in their original order"
	if a.NotPrefix != "" {
		add("not-a-prefix", "%s", a.NotPrefix)
		return v // the counts below have no meaning
	}
	if a.KA > b.NA || a.KN > b.NN || a.KX > b.NX {
		add("not-a-prefix", "more records than before: kept %d/%d/%d of %d/%d/%d", a.KA, a.KN, a.KX, b.NA, b.NN, b.NX)
		return v
	}
	// "the OPT record is always retained"
	switch {
	case b.HasOPT && a.OPTs == 0:
		add("opt-lost", "the OPT record is gone")
	case b.HasOPT && a.OPTs > 1, !b.HasOPT && a.OPTs > 0:
		add("opt-duplicated", "the OPT record occurs %d times", a.OPTs)
	}
	// "no record of a later section is kept once one of an earlier section was dropped"
	if a.KA < b.NA && (a.KN > 0 || a.KX > 0) {
		add("later-section-survives", "answer cut to %d of %d but %d authority and %d additional records remain", a.KA, b.NA, a.KN, a.KX)
	}
	if a.KN < b.NN && a.KX > 0 {
		add("later-section-survives", "authority cut to %d of %d but %d additional records remain", a.KN, b.NN, a.KX)
	}
	// "The TC bit ends up set exactly when it was already set or at least one record was dropped"
	dropped := a.KA < b.NA || a.KN < b.NN || a.KX < b.NX
	switch {
	case dropped && !a.TC:
		add("tc-not-set", "records were dropped (kept %d/%d/%d of %d/%d/%d) but TC is clear", a.KA, a.KN, a.KX, b.NA, b.NN, b.NX)
	case b.TC && !a.TC:
		add("tc-cleared", "TC was set before and is clear now")
	case !b.TC && !dropped && a.TC:
		add("tc-spurious", "nothing was dropped and TC was clear, but TC is set now")
	}
	// "the packed message is at most max(size, 512) octets whenever header, question and OPT alone fit in that"
	if a.PackErr != nil {
		add("pack-error", "the truncated message does not pack: %v", a.PackErr)
	} else if b.Base <= lim && a.Packed > lim {
		add("too-long", "packs to %d octets > limit %d (header+question+OPT = %d)", a.Packed, lim, b.Base)
	}
	// "a message that already fits keeps all its records"
	if dropped {
		switch {
		case b.Own <= lim:
			add("dropped-though-fits", "the message packs to %d octets under its own Compress setting, limit %d, yet only %d/%d/%d of %d/%d/%d records are left", b.Own, lim, a.KA, a.KN, a.KX, b.NA, b.NN, b.NX)
		case b.Compressed <= lim:
			add("dropped-though-fits-compressed", "the message packs to %d octets with compression, limit %d, yet only %d/%d/%d of %d/%d/%d records are left", b.Compressed, lim, a.KA, a.KN, a.KX, b.NA, b.NN, b.NX)
		}
	}
	// "for escape-free messages of the common types the first dropped record would not have fitted"
	if dropped && b.Exact && a.PackErr == nil {
		k := a.KA + a.KN + a.KX
		if a.KA < b.NA {
			k = a.KA
		} else if a.KN < b.NN {
			k = b.NA + a.KN
		}
		if n := b.Prefix(k + 1); n <= lim {
			add("dropped-too-early", "record #%d in section order was dropped although the message with it (and the OPT) packs to %d octets ≤ limit %d", k+1, n, lim)
		}
	}
	return v
}
