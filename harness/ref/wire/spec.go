// Package wire is the reference model of the DNS wire format: a hand-written table of RDATA layouts
// per RR type (from the RFCs), an encoder (abstract values → octets, never compressing) and a strict
// decoder (octets → abstract values, following compression pointers and recording them).
// It does not import the library and does not look at its struct tags; Go field names appear only so
// that the binding layer (package bind) can move values in and out of the library's structs.
package wire

type Kind int

const (
	U8 Kind = iota
	U16
	U32
	U48
	U64
	Name  // domain name that must not be compressed on output (RFC 3597 §4)
	CName // domain name of an RFC 1035 type: may be compressed
	Str   // <character-string>: one length octet + ≤255 octets
	Txt   // one or more <character-string> to the end of RDATA
	Octet // opaque octets to the end of RDATA, presented as text (URI target, CAA value)
	Any   // opaque octets to the end of RDATA, held raw (NULL)
	Hex   // opaque octets (to the end of RDATA unless LenFrom is set), presented as hex
	B64   // same, presented as base64
	B32   // same, presented as base32hex without padding
	A     // 4 octets
	AAAA  // 16 octets
	Nsec  // RFC 4034 §4.1.2 type bitmap to the end of RDATA
	Len8  // one-octet length of the field named Of
	Len16 // two-octet length of the field named Of
	Gateway    // IPSECKEY / AMTRELAY relay: nothing, 4 octets, 16 octets or an uncompressed name, by gateway type
	Names      // uncompressed names to the end of RDATA (HIP rendezvous servers)
	Apl        // RFC 3123 items to the end of RDATA
	Opts       // EDNS0 options to the end of RDATA
	SvcParams  // RFC 9460 SvcParams to the end of RDATA
)

type Field struct {
	K       Kind
	Go      string // Go struct field name in the library (binding only)
	Of      string // Len8/Len16: Go name of the data field measured
	LenFrom string // Hex/B64/B32: Go name of the length field giving this field's size ("" = to end of RDATA)
	TypeGo  string // Gateway: Go name of the gateway type field; Go is "GatewayAddr/GatewayHost"
	Mask    uint64 // Gateway: mask applied to the type field (AMTRELAY keeps the discovery bit in the same octet)
}

type Spec struct {
	Type   uint16
	Mnem   string
	Fields []Field
	RFC1035 bool // type defined in RFC 1035 (names in its RDATA may be compressed)
}

// Val is one abstract field value; which member is meaningful follows from the field's Kind.
type Val struct {
	U uint64     // U8..U64, Len8/Len16 (derived on encode, filled on decode)
	B []byte     // Str, Octet, Any, Hex, B64, B32, A, AAAA; Gateway address
	L [][]byte   // Name, CName: labels; Txt: the strings; Gateway host labels
	T []uint16   // Nsec
	N [][][]byte // Names
	Apl []AplItem
	Opts []Option
	Params []Param
	Root bool // Gateway of type 3 / name fields: distinguishes "no name" from the root name (always true for names)
}

type AplItem struct {
	Family uint16
	Prefix uint8
	Neg    bool
	Addr   []byte // without trailing zero octets
}

// Option is an EDNS0 option: code + raw payload (the payload layouts are modelled in opt.go).
type Option struct {
	Code uint16
	Data []byte
}

// Param is an SVCB SvcParam: key + raw value.
type Param struct {
	Key  uint16
	Data []byte
}

func f(k Kind, goName string) Field { return Field{K: k, Go: goName} }

var Specs = map[uint16]*Spec{}

func add(t uint16, mnem string, rfc1035 bool, fs ...Field) {
	Specs[t] = &Spec{Type: t, Mnem: mnem, Fields: fs, RFC1035: rfc1035}
}

func init() {
	// RFC 1035
	add(1, "A", true, f(A, "A"))
	add(2, "NS", true, f(CName, "Ns"))
	add(3, "MD", true, f(CName, "Md"))
	add(4, "MF", true, f(CName, "Mf"))
	add(5, "CNAME", true, f(CName, "Target"))
	add(6, "SOA", true, f(CName, "Ns"), f(CName, "Mbox"), f(U32, "Serial"), f(U32, "Refresh"), f(U32, "Retry"), f(U32, "Expire"), f(U32, "Minttl"))
	add(7, "MB", true, f(CName, "Mb"))
	add(8, "MG", true, f(CName, "Mg"))
	add(9, "MR", true, f(CName, "Mr"))
	add(10, "NULL", true, f(Any, "Data"))
	add(12, "PTR", true, f(CName, "Ptr"))
	add(13, "HINFO", true, f(Str, "Cpu"), f(Str, "Os"))
	add(14, "MINFO", true, f(CName, "Rmail"), f(CName, "Email"))
	add(15, "MX", true, f(U16, "Preference"), f(CName, "Mx"))
	add(16, "TXT", true, f(Txt, "Txt"))
	// RFC 1183
	add(17, "RP", false, f(Name, "Mbox"), f(Name, "Txt"))
	add(18, "AFSDB", false, f(U16, "Subtype"), f(Name, "Hostname"))
	add(19, "X25", false, f(Str, "PSDNAddress"))
	add(20, "ISDN", false, f(Str, "Address"), f(Str, "SubAddress")) // sub-address optional on the wire; modelled as present
	add(21, "RT", false, f(U16, "Preference"), f(Name, "Host"))
	add(23, "NSAP-PTR", false, f(Name, "Ptr"))
	add(24, "SIG", false, rrsig()...)
	add(25, "KEY", false, dnskey()...)
	add(26, "PX", false, f(U16, "Preference"), f(Name, "Map822"), f(Name, "Mapx400"))
	add(27, "GPOS", false, f(Str, "Longitude"), f(Str, "Latitude"), f(Str, "Altitude"))
	add(28, "AAAA", false, f(AAAA, "AAAA"))
	add(29, "LOC", false, f(U8, "Version"), f(U8, "Size"), f(U8, "HorizPre"), f(U8, "VertPre"), f(U32, "Latitude"), f(U32, "Longitude"), f(U32, "Altitude"))
	add(30, "NXT", false, f(Name, "NextDomain"), f(Nsec, "TypeBitMap")) // the library treats the obsolete NXT as NSEC
	add(31, "EID", false, f(Hex, "Endpoint"))
	add(32, "NIMLOC", false, f(Hex, "Locator"))
	add(33, "SRV", false, f(U16, "Priority"), f(U16, "Weight"), f(U16, "Port"), f(Name, "Target"))
	add(35, "NAPTR", false, f(U16, "Order"), f(U16, "Preference"), f(Str, "Flags"), f(Str, "Service"), f(Str, "Regexp"), f(Name, "Replacement"))
	add(36, "KX", false, f(U16, "Preference"), f(Name, "Exchanger"))
	add(37, "CERT", false, f(U16, "Type"), f(U16, "KeyTag"), f(U8, "Algorithm"), f(B64, "Certificate"))
	add(39, "DNAME", false, f(Name, "Target"))
	add(41, "OPT", false, f(Opts, "Option"))
	add(42, "APL", false, f(Apl, "Prefixes"))
	add(43, "DS", false, ds()...)
	add(44, "SSHFP", false, f(U8, "Algorithm"), f(U8, "Type"), f(Hex, "FingerPrint"))
	add(45, "IPSECKEY", false, f(U8, "Precedence"), f(U8, "GatewayType"), f(U8, "Algorithm"),
		Field{K: Gateway, Go: "GatewayAddr/GatewayHost", TypeGo: "GatewayType", Mask: 0xff}, f(B64, "PublicKey"))
	add(46, "RRSIG", false, rrsig()...)
	add(47, "NSEC", false, f(Name, "NextDomain"), f(Nsec, "TypeBitMap"))
	add(48, "DNSKEY", false, dnskey()...)
	add(49, "DHCID", false, f(B64, "Digest"))
	add(50, "NSEC3", false, f(U8, "Hash"), f(U8, "Flags"), f(U16, "Iterations"),
		Field{K: Len8, Go: "SaltLength", Of: "Salt"}, Field{K: Hex, Go: "Salt", LenFrom: "SaltLength"},
		Field{K: Len8, Go: "HashLength", Of: "NextDomain"}, Field{K: B32, Go: "NextDomain", LenFrom: "HashLength"},
		f(Nsec, "TypeBitMap"))
	add(51, "NSEC3PARAM", false, f(U8, "Hash"), f(U8, "Flags"), f(U16, "Iterations"),
		Field{K: Len8, Go: "SaltLength", Of: "Salt"}, Field{K: Hex, Go: "Salt", LenFrom: "SaltLength"})
	add(52, "TLSA", false, f(U8, "Usage"), f(U8, "Selector"), f(U8, "MatchingType"), f(Hex, "Certificate"))
	add(53, "SMIMEA", false, f(U8, "Usage"), f(U8, "Selector"), f(U8, "MatchingType"), f(Hex, "Certificate"))
	add(55, "HIP", false, Field{K: Len8, Go: "HitLength", Of: "Hit"}, f(U8, "PublicKeyAlgorithm"), Field{K: Len16, Go: "PublicKeyLength", Of: "PublicKey"},
		Field{K: Hex, Go: "Hit", LenFrom: "HitLength"}, Field{K: B64, Go: "PublicKey", LenFrom: "PublicKeyLength"}, f(Names, "RendezvousServers"))
	add(56, "NINFO", false, f(Txt, "ZSData"))
	add(57, "RKEY", false, dnskey()...)
	add(58, "TALINK", false, f(Name, "PreviousName"), f(Name, "NextName"))
	add(59, "CDS", false, ds()...)
	add(60, "CDNSKEY", false, dnskey()...)
	add(61, "OPENPGPKEY", false, f(B64, "PublicKey"))
	add(62, "CSYNC", false, f(U32, "Serial"), f(U16, "Flags"), f(Nsec, "TypeBitMap"))
	add(63, "ZONEMD", false, f(U32, "Serial"), f(U8, "Scheme"), f(U8, "Hash"), f(Hex, "Digest"))
	add(64, "SVCB", false, f(U16, "Priority"), f(Name, "Target"), f(SvcParams, "Value"))
	add(65, "HTTPS", false, f(U16, "Priority"), f(Name, "Target"), f(SvcParams, "Value"))
	add(99, "SPF", false, f(Txt, "Txt"))
	add(100, "UINFO", false, f(Str, "Uinfo"))
	add(101, "UID", false, f(U32, "Uid"))
	add(102, "GID", false, f(U32, "Gid"))
	add(104, "NID", false, f(U16, "Preference"), f(U64, "NodeID"))
	add(105, "L32", false, f(U16, "Preference"), f(A, "Locator32"))
	add(106, "L64", false, f(U16, "Preference"), f(U64, "Locator64"))
	add(107, "LP", false, f(U16, "Preference"), f(Name, "Fqdn"))
	add(108, "EUI48", false, f(U48, "Address"))
	add(109, "EUI64", false, f(U64, "Address"))
	add(128, "NXNAME", false)
	add(249, "TKEY", false, f(Name, "Algorithm"), f(U32, "Inception"), f(U32, "Expiration"), f(U16, "Mode"), f(U16, "Error"),
		Field{K: Len16, Go: "KeySize", Of: "Key"}, Field{K: Hex, Go: "Key", LenFrom: "KeySize"},
		Field{K: Len16, Go: "OtherLen", Of: "OtherData"}, Field{K: Hex, Go: "OtherData", LenFrom: "OtherLen"})
	add(250, "TSIG", false, f(Name, "Algorithm"), f(U48, "TimeSigned"), f(U16, "Fudge"),
		Field{K: Len16, Go: "MACSize", Of: "MAC"}, Field{K: Hex, Go: "MAC", LenFrom: "MACSize"},
		f(U16, "OrigId"), f(U16, "Error"),
		Field{K: Len16, Go: "OtherLen", Of: "OtherData"}, Field{K: Hex, Go: "OtherData", LenFrom: "OtherLen"})
	add(255, "ANY", false)
	add(256, "URI", false, f(U16, "Priority"), f(U16, "Weight"), f(Octet, "Target"))
	add(257, "CAA", false, f(U8, "Flag"), f(Str, "Tag"), f(Octet, "Value"))
	add(258, "AVC", false, f(Txt, "Txt"))
	add(260, "AMTRELAY", false, f(U8, "Precedence"), f(U8, "GatewayType"),
		Field{K: Gateway, Go: "GatewayAddr/GatewayHost", TypeGo: "GatewayType", Mask: 0x7f})
	add(261, "RESINFO", false, f(Txt, "Txt"))
	add(32768, "TA", false, ds()...)
	add(32769, "DLV", false, ds()...)
}

func rrsig() []Field {
	return []Field{f(U16, "TypeCovered"), f(U8, "Algorithm"), f(U8, "Labels"), f(U32, "OrigTtl"), f(U32, "Expiration"), f(U32, "Inception"), f(U16, "KeyTag"), f(Name, "SignerName"), f(B64, "Signature")}
}
func dnskey() []Field {
	return []Field{f(U16, "Flags"), f(U8, "Protocol"), f(U8, "Algorithm"), f(B64, "PublicKey")}
}
func ds() []Field {
	return []Field{f(U16, "KeyTag"), f(U8, "Algorithm"), f(U8, "DigestType"), f(Hex, "Digest")}
}

// RFC1035Types are the types whose RDATA names may be compressed (RFC 3597 §4).
func IsRFC1035(t uint16) bool { s := Specs[t]; return s != nil && s.RFC1035 }
