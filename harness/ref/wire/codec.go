package wire

import (
	"errors"
	"fmt"
)

// ---------------------------------------------------------------------------------------------
// encoding (never compresses)

func putN(b []byte, v uint64, n int) []byte {
	for i := n - 1; i >= 0; i-- {
		b = append(b, byte(v>>(8*uint(i))))
	}
	return b
}

func EncName(b []byte, labels [][]byte) []byte {
	for _, l := range labels {
		b = append(b, byte(len(l)))
		b = append(b, l...)
	}
	return append(b, 0)
}

func EncBitmap(b []byte, types []uint16) []byte {
	// RFC 4034 §4.1.2: window blocks in increasing order, each: window, length 1..32, bitmap without trailing zero octets
	i := 0
	for i < len(types) {
		w := types[i] >> 8
		var bm [32]byte
		n := 0
		for i < len(types) && types[i]>>8 == w {
			lo := types[i] & 0xff
			bm[lo/8] |= 0x80 >> (lo % 8)
			if int(lo/8)+1 > n {
				n = int(lo/8) + 1
			}
			i++
		}
		b = append(b, byte(w), byte(n))
		b = append(b, bm[:n]...)
	}
	return b
}

func lenOf(s *Spec, vals []Val, goName string) int {
	for i, f := range s.Fields {
		if f.Go == goName {
			return len(vals[i].B)
		}
	}
	panic("wire: no field " + goName)
}

func valOf(s *Spec, vals []Val, goName string) Val {
	for i, f := range s.Fields {
		if f.Go == goName {
			return vals[i]
		}
	}
	panic("wire: no field " + goName)
}

// EncodeRdata gives the RFC layout of the RDATA for abstract values vals.
func EncodeRdata(s *Spec, vals []Val) []byte {
	var b []byte
	for i, f := range s.Fields {
		v := vals[i]
		switch f.K {
		case U8:
			b = putN(b, v.U, 1)
		case U16:
			b = putN(b, v.U, 2)
		case U32:
			b = putN(b, v.U, 4)
		case U48:
			b = putN(b, v.U, 6)
		case U64:
			b = putN(b, v.U, 8)
		case Name, CName:
			b = EncName(b, v.L)
		case Str:
			b = append(b, byte(len(v.B)))
			b = append(b, v.B...)
		case Txt:
			for _, s := range v.L {
				b = append(b, byte(len(s)))
				b = append(b, s...)
			}
		case Octet, Any, Hex, B64, B32, A, AAAA:
			b = append(b, v.B...)
		case Nsec:
			b = EncBitmap(b, v.T)
		case Len8:
			b = putN(b, uint64(lenOf(s, vals, f.Of)), 1)
		case Len16:
			b = putN(b, uint64(lenOf(s, vals, f.Of)), 2)
		case Gateway:
			switch valOf(s, vals, f.TypeGo).U & f.Mask {
			case 0:
			case 1, 2:
				b = append(b, v.B...)
			case 3:
				b = EncName(b, v.L)
			}
		case Names:
			for _, n := range v.N {
				b = EncName(b, n)
			}
		case Apl:
			for _, it := range v.Apl {
				b = putN(b, uint64(it.Family), 2)
				b = append(b, it.Prefix)
				n := byte(len(it.Addr))
				if it.Neg {
					n |= 0x80
				}
				b = append(b, n)
				b = append(b, it.Addr...)
			}
		case Opts:
			for _, o := range v.Opts {
				b = putN(b, uint64(o.Code), 2)
				b = putN(b, uint64(len(o.Data)), 2)
				b = append(b, o.Data...)
			}
		case SvcParams:
			for _, p := range v.Params {
				b = putN(b, uint64(p.Key), 2)
				b = putN(b, uint64(len(p.Data)), 2)
				b = append(b, p.Data...)
			}
		default:
			panic("wire: kind")
		}
	}
	return b
}

// ---------------------------------------------------------------------------------------------
// messages

type Question struct {
	Name  [][]byte
	Type  uint16
	Class uint16
}

type RR struct {
	Name    [][]byte
	Type    uint16
	Class   uint16
	TTL     uint32
	Vals    []Val  // when Specs[Type] exists and !Generic
	Raw     []byte // RDATA for unknown types / generic encoding
	Generic bool   // use Raw even if a spec exists
	NoRdata bool   // RDLENGTH 0 (dynamic update form)
}

type Msg struct {
	ID    uint16
	Flags uint16 // QR|Opcode|AA|TC|RD|RA|Z|AD|CD|RCODE as on the wire
	Q     []Question
	Sec   [3][]RR // answer, authority, additional
}

func (r *RR) Rdata() []byte {
	if r.NoRdata {
		return nil
	}
	if s := Specs[r.Type]; s != nil && !r.Generic {
		return EncodeRdata(s, r.Vals)
	}
	return r.Raw
}

func EncodeRR(b []byte, r *RR) ([]byte, error) {
	b = EncName(b, r.Name)
	b = putN(b, uint64(r.Type), 2)
	b = putN(b, uint64(r.Class), 2)
	b = putN(b, uint64(r.TTL), 4)
	rd := r.Rdata()
	if len(rd) > 65535 {
		return nil, errors.New("rdata too long")
	}
	b = putN(b, uint64(len(rd)), 2)
	return append(b, rd...), nil
}

func EncodeMsg(m *Msg) ([]byte, error) {
	b := make([]byte, 0, 512)
	b = putN(b, uint64(m.ID), 2)
	b = putN(b, uint64(m.Flags), 2)
	b = putN(b, uint64(len(m.Q)), 2)
	for i := 0; i < 3; i++ {
		b = putN(b, uint64(len(m.Sec[i])), 2)
	}
	for _, q := range m.Q {
		b = EncName(b, q.Name)
		b = putN(b, uint64(q.Type), 2)
		b = putN(b, uint64(q.Class), 2)
	}
	var err error
	for i := 0; i < 3; i++ {
		for j := range m.Sec[i] {
			if b, err = EncodeRR(b, &m.Sec[i][j]); err != nil {
				return nil, err
			}
		}
	}
	return b, nil
}

// ---------------------------------------------------------------------------------------------
// strict decoding

// Ptr records one compression pointer met while decoding.
type Ptr struct {
	At      int    // offset of the pointer
	Target  int    // offset it points to
	InRdata bool   // inside RDATA (else owner / question name)
	RRType  uint16 // type of the record whose RDATA contains it
	Kind    Kind   // Name or CName (field kind), when InRdata
}

type Decoder struct {
	Msg  []byte
	Ptrs []Ptr
	// NameStarts records every offset at which a label of some name starts (pointer targets must be among the earlier ones)
	LabelStarts map[int]bool
}

var ErrShort = errors.New("wire: short input")

// name decodes a possibly compressed name at off. It returns the labels and the offset after the name
// in the original stream.
func (d *Decoder) name(off int, inRdata bool, rrtype uint16, k Kind) ([][]byte, int, error) {
	var labels [][]byte
	end := -1
	total := 1
	hops := 0
	for {
		if off >= len(d.Msg) {
			return nil, 0, ErrShort
		}
		c := int(d.Msg[off])
		switch c & 0xC0 {
		case 0x00:
			if c == 0 {
				if end < 0 {
					end = off + 1
				}
				return labels, end, nil
			}
			if off+1+c > len(d.Msg) {
				return nil, 0, ErrShort
			}
			total += 1 + c
			if total > 255 {
				return nil, 0, errors.New("wire: name longer than 255 octets")
			}
			if d.LabelStarts != nil && hops == 0 {
				d.LabelStarts[off] = true
			}
			labels = append(labels, d.Msg[off+1:off+1+c])
			off += 1 + c
		case 0xC0:
			if off+2 > len(d.Msg) {
				return nil, 0, ErrShort
			}
			t := (c&0x3f)<<8 | int(d.Msg[off+1])
			d.Ptrs = append(d.Ptrs, Ptr{At: off, Target: t, InRdata: inRdata, RRType: rrtype, Kind: k})
			if end < 0 {
				end = off + 2
			}
			hops++
			if hops > 127 {
				return nil, 0, errors.New("wire: pointer loop")
			}
			off = t
		default:
			return nil, 0, fmt.Errorf("wire: reserved label type %#x at %d", c, off)
		}
	}
}

func (d *Decoder) getN(off, n, end int) (uint64, int, error) {
	if off+n > end {
		return 0, 0, ErrShort
	}
	var v uint64
	for i := 0; i < n; i++ {
		v = v<<8 | uint64(d.Msg[off+i])
	}
	return v, off + n, nil
}

func DecBitmap(b []byte) ([]uint16, error) {
	var out []uint16
	last := -1
	for i := 0; i < len(b); {
		if i+2 > len(b) {
			return nil, ErrShort
		}
		w, n := int(b[i]), int(b[i+1])
		i += 2
		if w <= last || n < 1 || n > 32 || i+n > len(b) {
			return nil, errors.New("wire: bad bitmap block")
		}
		if b[i+n-1] == 0 {
			return nil, errors.New("wire: bitmap with trailing zero octet")
		}
		for j := 0; j < n; j++ {
			for k := 0; k < 8; k++ {
				if b[i+j]&(0x80>>uint(k)) != 0 {
					out = append(out, uint16(w<<8|j*8+k))
				}
			}
		}
		i += n
		last = w
	}
	return out, nil
}

// DecodeRdata decodes d.Msg[off:end] as RDATA of type s strictly: every octet must be consumed.
func (d *Decoder) DecodeRdata(s *Spec, off, end int) ([]Val, error) {
	vals := make([]Val, len(s.Fields))
	lens := map[string]int{}
	var err error
	for i, f := range s.Fields {
		v := &vals[i]
		switch f.K {
		case U8, U16, U32, U48, U64:
			n := map[Kind]int{U8: 1, U16: 2, U32: 4, U48: 6, U64: 8}[f.K]
			v.U, off, err = d.getN(off, n, end)
		case Len8, Len16:
			n := 1
			if f.K == Len16 {
				n = 2
			}
			v.U, off, err = d.getN(off, n, end)
			lens[f.Go] = int(v.U)
		case Name, CName:
			v.L, off, err = d.name(off, true, s.Type, f.K)
			v.Root = true
			if err == nil && off > end {
				err = ErrShort
			}
		case Str:
			if off+1 > end || off+1+int(d.Msg[off]) > end {
				return nil, ErrShort
			}
			v.B = d.Msg[off+1 : off+1+int(d.Msg[off])]
			off += 1 + len(v.B)
		case Txt:
			if off >= end {
				return nil, errors.New("wire: TXT without a string")
			}
			for off < end {
				if off+1+int(d.Msg[off]) > end {
					return nil, ErrShort
				}
				v.L = append(v.L, d.Msg[off+1:off+1+int(d.Msg[off])])
				off += 1 + int(d.Msg[off])
			}
		case Octet, Any:
			v.B = d.Msg[off:end]
			off = end
		case Hex, B64, B32:
			n := end - off
			if f.LenFrom != "" {
				n = lens[f.LenFrom]
			}
			if n < 0 || off+n > end {
				return nil, ErrShort
			}
			v.B = d.Msg[off : off+n]
			off += n
		case A, AAAA:
			n := 4
			if f.K == AAAA {
				n = 16
			}
			if off+n > end {
				return nil, ErrShort
			}
			v.B = d.Msg[off : off+n]
			off += n
		case Nsec:
			v.T, err = DecBitmap(d.Msg[off:end])
			off = end
		case Gateway:
			var tv uint64
			for j, g := range s.Fields {
				if g.Go == f.TypeGo {
					tv = vals[j].U
				}
			}
			switch tv & f.Mask {
			case 0:
			case 1:
				if off+4 > end {
					return nil, ErrShort
				}
				v.B = d.Msg[off : off+4]
				off += 4
			case 2:
				if off+16 > end {
					return nil, ErrShort
				}
				v.B = d.Msg[off : off+16]
				off += 16
			case 3:
				v.L, off, err = d.name(off, true, s.Type, Name)
				v.Root = true
			default:
				return nil, errors.New("wire: unknown gateway type")
			}
		case Names:
			for off < end && err == nil {
				var l [][]byte
				l, off, err = d.name(off, true, s.Type, Name)
				v.N = append(v.N, l)
			}
		case Apl:
			for off < end {
				if off+4 > end {
					return nil, ErrShort
				}
				it := AplItem{Family: uint16(d.Msg[off])<<8 | uint16(d.Msg[off+1]), Prefix: d.Msg[off+2], Neg: d.Msg[off+3]&0x80 != 0}
				n := int(d.Msg[off+3] & 0x7f)
				off += 4
				if off+n > end {
					return nil, ErrShort
				}
				it.Addr = d.Msg[off : off+n]
				off += n
				v.Apl = append(v.Apl, it)
			}
		case Opts, SvcParams:
			for off < end {
				if off+4 > end {
					return nil, ErrShort
				}
				code := uint16(d.Msg[off])<<8 | uint16(d.Msg[off+1])
				n := int(d.Msg[off+2])<<8 | int(d.Msg[off+3])
				off += 4
				if off+n > end {
					return nil, ErrShort
				}
				if f.K == Opts {
					v.Opts = append(v.Opts, Option{code, d.Msg[off : off+n]})
				} else {
					v.Params = append(v.Params, Param{code, d.Msg[off : off+n]})
				}
				off += n
			}
		}
		if err != nil {
			return nil, err
		}
		if off > end {
			return nil, ErrShort
		}
	}
	if off != end {
		return nil, fmt.Errorf("wire: %d octets of RDATA left over", end-off)
	}
	return vals, nil
}

func (d *Decoder) rr(off int) (RR, int, error) {
	var r RR
	var err error
	r.Name, off, err = d.name(off, false, 0, CName)
	if err != nil {
		return r, 0, err
	}
	if off+10 > len(d.Msg) {
		return r, 0, ErrShort
	}
	g := func(o, n int) uint64 { v, _, _ := d.getN(o, n, len(d.Msg)); return v }
	r.Type, r.Class, r.TTL = uint16(g(off, 2)), uint16(g(off+2, 2)), uint32(g(off+4, 4))
	rdl := int(g(off+8, 2))
	off += 10
	if off+rdl > len(d.Msg) {
		return r, 0, ErrShort
	}
	if rdl == 0 {
		r.NoRdata = true
		if s := Specs[r.Type]; s != nil && len(s.Fields) == 0 {
			r.NoRdata = false
		}
		return r, off, nil
	}
	if s := Specs[r.Type]; s != nil {
		r.Vals, err = d.DecodeRdata(s, off, off+rdl)
		if err != nil {
			return r, 0, fmt.Errorf("%s rdata: %w", s.Mnem, err)
		}
	} else {
		r.Raw = d.Msg[off : off+rdl]
	}
	return r, off + rdl, nil
}

// DecodeMsg strictly decodes a whole message; trailing octets are an error.
func DecodeMsg(b []byte) (*Msg, *Decoder, error) {
	d := &Decoder{Msg: b, LabelStarts: map[int]bool{}}
	if len(b) < 12 {
		return nil, d, ErrShort
	}
	g := func(o int) int { return int(b[o])<<8 | int(b[o+1]) }
	m := &Msg{ID: uint16(g(0)), Flags: uint16(g(2))}
	off := 12
	var err error
	for i := 0; i < g(4); i++ {
		var q Question
		q.Name, off, err = d.name(off, false, 0, CName)
		if err != nil {
			return nil, d, err
		}
		if off+4 > len(b) {
			return nil, d, ErrShort
		}
		q.Type, q.Class = uint16(g(off)), uint16(g(off+2))
		off += 4
		m.Q = append(m.Q, q)
	}
	for s := 0; s < 3; s++ {
		for i := 0; i < g(6+2*s); i++ {
			var r RR
			r, off, err = d.rr(off)
			if err != nil {
				return nil, d, fmt.Errorf("section %d rr %d: %w", s, i, err)
			}
			m.Sec[s] = append(m.Sec[s], r)
		}
	}
	if off != len(b) {
		return nil, d, fmt.Errorf("wire: %d trailing octets", len(b)-off)
	}
	return m, d, nil
}

// ---------------------------------------------------------------------------------------------
// a compressing reference encoder (for "compressed names are accepted on input for every type")

type ptrEnc struct {
	b    []byte
	seen map[string]int // exact (case-preserving) suffix → offset
}

func suffixKey(labels [][]byte) string {
	var k []byte
	for _, l := range labels {
		k = append(k, byte(len(l)))
		k = append(k, l...)
	}
	return string(k)
}

func (e *ptrEnc) name(labels [][]byte) {
	for i := range labels {
		k := suffixKey(labels[i:])
		if off, ok := e.seen[k]; ok {
			e.b = append(e.b, 0xC0|byte(off>>8), byte(off))
			return
		}
		if len(e.b) < 0x4000 {
			e.seen[k] = len(e.b)
		}
		e.b = append(e.b, byte(len(labels[i])))
		e.b = append(e.b, labels[i]...)
	}
	e.b = append(e.b, 0)
}

// EncodeMsgPointers encodes m compressing *every* name, including names in the RDATA of types for
// which a sender must not do so; receivers must still accept it (RFC 3597 §4).
func EncodeMsgPointers(m *Msg) []byte {
	e := &ptrEnc{seen: map[string]int{}}
	e.b = putN(e.b, uint64(m.ID), 2)
	e.b = putN(e.b, uint64(m.Flags), 2)
	e.b = putN(e.b, uint64(len(m.Q)), 2)
	for i := 0; i < 3; i++ {
		e.b = putN(e.b, uint64(len(m.Sec[i])), 2)
	}
	for _, q := range m.Q {
		e.name(q.Name)
		e.b = putN(e.b, uint64(q.Type), 2)
		e.b = putN(e.b, uint64(q.Class), 2)
	}
	for i := 0; i < 3; i++ {
		for j := range m.Sec[i] {
			r := &m.Sec[i][j]
			e.name(r.Name)
			e.b = putN(e.b, uint64(r.Type), 2)
			e.b = putN(e.b, uint64(r.Class), 2)
			e.b = putN(e.b, uint64(r.TTL), 4)
			lenAt := len(e.b)
			e.b = append(e.b, 0, 0)
			s := Specs[r.Type]
			if s == nil || r.Generic || r.NoRdata {
				e.b = append(e.b, r.Rdata()...)
			} else {
				for fi, f := range s.Fields {
					v := r.Vals[fi]
					switch f.K {
					case Name, CName:
						e.name(v.L)
					case Names:
						for _, n := range v.N {
							e.name(n)
						}
					case Gateway:
						if valOf(s, r.Vals, f.TypeGo).U&f.Mask == 3 {
							e.name(v.L)
						} else {
							e.b = append(e.b, v.B...)
						}
					default:
						e.b = append(e.b, encodeField(s, r.Vals, fi)...)
					}
				}
			}
			n := len(e.b) - lenAt - 2
			e.b[lenAt], e.b[lenAt+1] = byte(n>>8), byte(n)
		}
	}
	return e.b
}

// encodeField encodes a single non-name field.
func encodeField(s *Spec, vals []Val, fi int) []byte {
	return encodeRdataWith(&Spec{Type: s.Type, Fields: s.Fields[fi : fi+1]}, s, vals[fi:fi+1], vals)
}

// encodeRdataWith encodes the fields of part, resolving Len/Gateway references against the full spec.
func encodeRdataWith(part, fullSpec *Spec, vals, fullVals []Val) []byte {
	var b []byte
	for i, f := range part.Fields {
		v := vals[i]
		switch f.K {
		case Len8:
			b = putN(b, uint64(lenOf(fullSpec, fullVals, f.Of)), 1)
		case Len16:
			b = putN(b, uint64(lenOf(fullSpec, fullVals, f.Of)), 2)
		case Gateway:
			switch valOf(fullSpec, fullVals, f.TypeGo).U & f.Mask {
			case 1, 2:
				b = append(b, v.B...)
			case 3:
				b = EncName(b, v.L)
			}
		default:
			one := Spec{Type: part.Type, Fields: []Field{f}}
			b = append(b, EncodeRdata(&one, []Val{v})...)
		}
	}
	return b
}
