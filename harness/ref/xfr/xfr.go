// Package xfr states where an incoming zone transfer ends and which response streams a client has to
// refuse. It is written from RFC 5936 §2.2 (AXFR), RFC 1995 §4 (IXFR) and RFC 8945 §5.3.1 (every
// message of a signed multi-message response carries a TSIG that verifies under the running MAC
// chain), over abstract records; it shares nothing with /repo/xfr.go.
//
// Grammar of the transmitted record sequence (concatenated over the messages), S = serial of record 0:
//
//	AXFR            SOA(S) nonSOA* SOA(S)                               closing SOA = the next SOA
//	IXFR up to date SOA(S)                      when S <= client serial  closing SOA = record 0
//	IXFR AXFR-style SOA(S) nonSOA+ SOA(S) | SOA(S) SOA(S)               second record is not the start of a difference
//	IXFR incremental SOA(S) { SOA(old) nonSOA* SOA(new) nonSOA* }+ SOA(S), old,new != S except the last new == S
//
// The transfer ends with the message that contains the closing SOA. "S <= client serial" is RFC 1982
// serial number arithmetic (RFC 1995 §2 speaks of the "same or newer version"; versions are SOA serials).
package xfr

type Rec struct {
	SOA    bool
	Serial uint32
}

// Env is one response message as it arrives: Verified says whether its TSIG verifies under the running
// MAC chain (decided by the caller from how the stream was produced; ignored without TSIG).
type Env struct {
	ID       uint16
	Rcode    int
	Verified bool
	Recs     []Rec
}

type Query struct {
	IXFR   bool
	Serial uint32 // client serial (IXFR)
	ID     uint16
	TSIG   bool
}

type Verdict int

const (
	Complete Verdict = iota // ends at the closing SOA: channel and connection close, no error
	BadTSIG                 // the remaining verdicts but Unspecified: exactly one error envelope, then nothing
	BadID
	BadRcode
	NotSOAFirst
	EndsEarly   // the stream stops before the closing SOA
	Unspecified // the stream leaves the grammar in a way no clause of the property speaks about
)

// Outcome: the first OK messages are delivered without error, then V happens. EmptyAt is the index of the
// first consumed message with an empty answer section (-1: none); no RFC clause says whether such a message
// is legal, so a receiver may report an error at that message instead.
type Outcome struct {
	OK      int
	V       Verdict
	EmptyAt int
}

func Expect(q Query, envs []Env) Outcome {
	const (
		start = iota
		second
		axfr
		del
		add
	)
	o := Outcome{EmptyAt: -1}
	st, S, cur := start, uint32(0), uint32(0)
	for i, e := range envs {
		o.OK = i
		switch {
		case q.TSIG && !e.Verified:
			o.V = BadTSIG
		case e.ID != q.ID:
			o.V = BadID
		case e.Rcode != 0:
			o.V = BadRcode
		}
		if o.V != Complete {
			return o
		}
		if len(e.Recs) == 0 && o.EmptyAt < 0 {
			o.EmptyAt = i
		}
		done := false
		for _, r := range e.Recs {
			switch {
			case done: // records behind the closing SOA in the same message do not move the end
			case st == start && !r.SOA:
				o.V = NotSOAFirst
				return o
			case st == start:
				S = r.Serial
				st = axfr
				if q.IXFR {
					st, done = second, SerialLE(S, q.Serial)
				}
			case st == second && !r.SOA:
				st = axfr
			case st == second && r.Serial == S:
				done = true // "SOA SOA": AXFR-style answer of a zone holding only its SOA
			case st == second:
				st = del // the older SOA opens the first difference sequence
			case !r.SOA:
			case st == axfr:
				if done = r.Serial == S; !done {
					o.V = Unspecified
					return o
				}
			case st == del:
				cur, st = r.Serial, add // the newer SOA opens the additions
			case cur == S && r.Serial == S:
				done = true // additions of the last difference are closed by the server's SOA
			case cur == S || r.Serial == S:
				o.V = Unspecified
				return o
			default:
				st = del
			}
		}
		if o.OK = i + 1; done {
			return o
		}
	}
	o.V = EndsEarly
	return o
}

// SerialLE reports a <= b in RFC 1982 serial number arithmetic (32 bits): equal, or b is ahead of a by
// less than 2^31. Pairs exactly 2^31 apart are undefined there; callers do not enumerate them.
func SerialLE(a, b uint32) bool { return a == b || int32(b-a) > 0 }
