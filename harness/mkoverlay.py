#!/usr/bin/env python3
"""mkoverlay.py <outdir> <instrument-binary>: instrument server.go / serve_mux.go from /repo's working tree
(or from the mutated copies named in $VERIF_OVERLAY) and write <outdir>/overlay.json for
`go build -tags verif -overlay`."""
import json, os, subprocess, sys
out, inst = sys.argv[1], sys.argv[2]
here = os.path.dirname(os.path.abspath(__file__))
os.makedirs(os.path.join(out, "gen"), exist_ok=True)
base = {}
if os.environ.get("VERIF_OVERLAY"):
    base = json.load(open(os.environ["VERIF_OVERLAY"]))["Replace"]
rep = dict(base)
srcs = {f: base.get("/repo/" + f, "/repo/" + f) for f in ("server.go", "serve_mux.go")}
for f, src in srcs.items():
    dst = os.path.join(out, "gen", f)
    others = [s for g, s in srcs.items() if g != f]
    r = subprocess.run([inst, src, dst] + others)
    if r.returncode != 0:
        sys.exit("instrumenting %s failed" % src)
    rep["/repo/" + f] = dst
for pkg in ("vsched", "vsync", "vatomic", "simnet"):
    rep["/repo/verifshim/%s/%s.go" % (pkg, pkg)] = os.path.join(here, "shim", pkg, pkg + ".go")
json.dump({"Replace": rep}, open(os.path.join(out, "overlay.json"), "w"), indent=1)
