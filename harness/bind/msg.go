package bind

import (
	"fmt"

	"github.com/miekg/dns"
	rn "verif/harness/ref/name"
	"verif/harness/ref/wire"
)

// Header flag word, RFC 1035 §4.1.1 (+ AD/CD from RFC 2535/4035):
//   15 QR | 14-11 Opcode | 10 AA | 9 TC | 8 RD | 7 RA | 6 Z | 5 AD | 4 CD | 3-0 RCODE

func HdrToGo(id, flags uint16) dns.MsgHdr {
	return dns.MsgHdr{
		Id:                 id,
		Response:           flags&0x8000 != 0,
		Opcode:             int(flags>>11) & 0xf,
		Authoritative:      flags&0x0400 != 0,
		Truncated:          flags&0x0200 != 0,
		RecursionDesired:   flags&0x0100 != 0,
		RecursionAvailable: flags&0x0080 != 0,
		Zero:               flags&0x0040 != 0,
		AuthenticatedData:  flags&0x0020 != 0,
		CheckingDisabled:   flags&0x0010 != 0,
		Rcode:              int(flags & 0xf),
	}
}

func b2u(b bool, bit uint16) uint16 {
	if b {
		return bit
	}
	return 0
}

// HdrFromGo gives the flag word for a library header (the 4 low RCODE bits only).
func HdrFromGo(h dns.MsgHdr) (id, flags uint16) {
	return h.Id, b2u(h.Response, 0x8000) | uint16(h.Opcode&0xf)<<11 | b2u(h.Authoritative, 0x400) | b2u(h.Truncated, 0x200) |
		b2u(h.RecursionDesired, 0x100) | b2u(h.RecursionAvailable, 0x80) | b2u(h.Zero, 0x40) | b2u(h.AuthenticatedData, 0x20) |
		b2u(h.CheckingDisabled, 0x10) | uint16(h.Rcode&0xf)
}

func ToGoMsg(m *wire.Msg) (*dns.Msg, error) {
	g := new(dns.Msg)
	g.MsgHdr = HdrToGo(m.ID, m.Flags)
	for _, q := range m.Q {
		g.Question = append(g.Question, dns.Question{Name: LibName(q.Name), Qtype: q.Type, Qclass: q.Class})
	}
	secs := []*[]dns.RR{&g.Answer, &g.Ns, &g.Extra}
	for i := 0; i < 3; i++ {
		for j := range m.Sec[i] {
			rr, err := ToGo(&m.Sec[i][j])
			if err != nil {
				return nil, err
			}
			*secs[i] = append(*secs[i], rr)
		}
	}
	return g, nil
}

// FromGoMsg reads a library message back (Rcode: low 4 bits into Flags; the caller compares the
// extended part separately).
func FromGoMsg(g *dns.Msg) (*wire.Msg, error) {
	m := new(wire.Msg)
	m.ID, m.Flags = HdrFromGo(g.MsgHdr)
	for _, q := range g.Question {
		l, err := Labels(q.Name)
		if err != nil {
			return nil, fmt.Errorf("question: %w", err)
		}
		m.Q = append(m.Q, wire.Question{Name: l, Type: q.Qtype, Class: q.Qclass})
	}
	for i, sec := range [][]dns.RR{g.Answer, g.Ns, g.Extra} {
		for _, rr := range sec {
			r, err := FromGo(rr)
			if err != nil {
				return nil, err
			}
			m.Sec[i] = append(m.Sec[i], *r)
		}
	}
	return m, nil
}

// EqualMsg compares abstract messages; "" when equal.
func EqualMsg(a, b *wire.Msg) string {
	if a.ID != b.ID || a.Flags != b.Flags {
		return fmt.Sprintf("header id/flags %#x/%#04x vs %#x/%#04x", a.ID, a.Flags, b.ID, b.Flags)
	}
	if len(a.Q) != len(b.Q) {
		return fmt.Sprintf("%d vs %d questions", len(a.Q), len(b.Q))
	}
	for i := range a.Q {
		if !rn.Equal(a.Q[i].Name, b.Q[i].Name) || a.Q[i].Type != b.Q[i].Type || a.Q[i].Class != b.Q[i].Class {
			return fmt.Sprintf("question %d: %q %d %d vs %q %d %d", i, a.Q[i].Name, a.Q[i].Type, a.Q[i].Class, b.Q[i].Name, b.Q[i].Type, b.Q[i].Class)
		}
	}
	for s := 0; s < 3; s++ {
		if len(a.Sec[s]) != len(b.Sec[s]) {
			return fmt.Sprintf("section %d: %d vs %d records", s, len(a.Sec[s]), len(b.Sec[s]))
		}
		for i := range a.Sec[s] {
			if d := EqualRR(&a.Sec[s][i], &b.Sec[s][i]); d != "" {
				return fmt.Sprintf("section %d record %d: %s", s, i, d)
			}
		}
	}
	return ""
}
