// Package bind moves abstract records of the reference wire model (ref/wire) into and out of the
// library's Go structs by reflection over *field names*. It knows how the library *represents*
// values (escaped strings, hex/base64 text, net.IP) but computes no wire octets itself.
package bind

import (
	"bytes"
	"encoding/base32"
	"encoding/base64"
	"encoding/hex"
	"fmt"
	"net"
	"reflect"
	"strings"

	"github.com/miekg/dns"
	rn "verif/harness/ref/name"
	"verif/harness/ref/wire"
)

// LibName renders labels in the library's presentation form (via UnpackDomainName; that link is what
// property C03 checks).
func LibName(labels [][]byte) string {
	s, _, err := dns.UnpackDomainName(rn.Wire(labels), 0)
	if err != nil {
		panic(fmt.Sprintf("bind.LibName(%q): %v", labels, err))
	}
	return s
}

// Labels reads a presentation name with the reference reader.
func Labels(s string) ([][]byte, error) {
	p := rn.Parse(s)
	if !p.OK || !p.FQDN {
		return nil, fmt.Errorf("not a valid fully-qualified name: %q", s)
	}
	return p.Labels, nil
}

// EscTxt is the presentation spelling of a character-string as the library holds it in memory:
// backslash before " and \, \DDD outside 0x20..0x7e.
func EscTxt(b []byte) string {
	var sb strings.Builder
	for _, c := range b {
		switch {
		case c == '"' || c == '\\':
			sb.WriteByte('\\')
			sb.WriteByte(c)
		case c < ' ' || c > '~':
			fmt.Fprintf(&sb, "\\%03d", c)
		default:
			sb.WriteByte(c)
		}
	}
	return sb.String()
}

// UnescTxt reads a presentation string: \DDD is an octet, \X is X.
func UnescTxt(s string) ([]byte, error) {
	out := make([]byte, 0, len(s))
	for i := 0; i < len(s); i++ {
		c := s[i]
		if c != '\\' {
			out = append(out, c)
			continue
		}
		if i+1 >= len(s) {
			return nil, fmt.Errorf("dangling backslash in %q", s)
		}
		d := func(k int) bool { return i+k < len(s) && s[i+k] >= '0' && s[i+k] <= '9' }
		if d(1) && d(2) && d(3) {
			v := int(s[i+1]-'0')*100 + int(s[i+2]-'0')*10 + int(s[i+3]-'0')
			if v > 255 {
				return nil, fmt.Errorf("\\DDD > 255 in %q", s)
			}
			out = append(out, byte(v))
			i += 3
		} else {
			out = append(out, s[i+1])
			i++
		}
	}
	return out, nil
}

var b32 = base32.HexEncoding.WithPadding(base32.NoPadding)

func field(rv reflect.Value, name string) reflect.Value {
	f := rv.FieldByName(name)
	if !f.IsValid() {
		panic(fmt.Sprintf("bind: %s has no field %s", rv.Type(), name))
	}
	return f
}

// NewRR returns a fresh library RR of type t (typed if registered, else *dns.RFC3597).
func NewRR(t uint16) dns.RR {
	if fn, ok := dns.TypeToRR[t]; ok {
		return fn()
	}
	return new(dns.RFC3597)
}

// ToGo builds the library record for an abstract record.
func ToGo(r *wire.RR) (rr dns.RR, err error) {
	defer func() {
		if p := recover(); p != nil {
			err = fmt.Errorf("bind.ToGo: %v", p)
		}
	}()
	s := wire.Specs[r.Type]
	_, registered := dns.TypeToRR[r.Type]
	hdr := dns.RR_Header{Name: LibName(r.Name), Rrtype: r.Type, Class: r.Class, Ttl: r.TTL}
	if s == nil || r.Generic || !registered {
		x := &dns.RFC3597{Hdr: hdr, Rdata: hex.EncodeToString(r.Raw)}
		return x, nil
	}
	rr = dns.TypeToRR[r.Type]()
	*rr.Header() = hdr
	if r.NoRdata {
		return rr, nil
	}
	rv := reflect.ValueOf(rr).Elem()
	for i, f := range s.Fields {
		v := r.Vals[i]
		switch f.K {
		case wire.U8, wire.U16, wire.U32, wire.U48, wire.U64:
			field(rv, f.Go).SetUint(v.U)
		case wire.Len8, wire.Len16:
			for j, g := range s.Fields {
				if g.Go == f.Of {
					field(rv, f.Go).SetUint(uint64(len(r.Vals[j].B)))
				}
			}
		case wire.Name, wire.CName:
			field(rv, f.Go).SetString(LibName(v.L))
		case wire.Str, wire.Octet:
			field(rv, f.Go).SetString(EscTxt(v.B))
		case wire.Txt:
			ss := make([]string, len(v.L))
			for k, x := range v.L {
				ss[k] = EscTxt(x)
			}
			field(rv, f.Go).Set(reflect.ValueOf(ss))
		case wire.Any:
			field(rv, f.Go).SetString(string(v.B))
		case wire.Hex:
			field(rv, f.Go).SetString(hex.EncodeToString(v.B))
		case wire.B64:
			field(rv, f.Go).SetString(base64.StdEncoding.EncodeToString(v.B))
		case wire.B32:
			field(rv, f.Go).SetString(b32.EncodeToString(v.B))
		case wire.A, wire.AAAA:
			field(rv, f.Go).Set(reflect.ValueOf(net.IP(append([]byte(nil), v.B...))))
		case wire.Nsec:
			field(rv, f.Go).Set(reflect.ValueOf(append([]uint16(nil), v.T...)))
		case wire.Gateway:
			var tv uint64
			for j, g := range s.Fields {
				if g.Go == f.TypeGo {
					tv = r.Vals[j].U
				}
			}
			switch tv & f.Mask {
			case 1, 2:
				field(rv, "GatewayAddr").Set(reflect.ValueOf(net.IP(append([]byte(nil), v.B...))))
			case 3:
				field(rv, "GatewayHost").SetString(LibName(v.L))
			}
		case wire.Names:
			ss := make([]string, len(v.N))
			for k, n := range v.N {
				ss[k] = LibName(n)
			}
			field(rv, f.Go).Set(reflect.ValueOf(ss))
		case wire.Apl:
			ps := make([]dns.APLPrefix, len(v.Apl))
			for k, it := range v.Apl {
				n := 4
				if it.Family == 2 {
					n = 16
				}
				ip := make(net.IP, n)
				copy(ip, it.Addr)
				ps[k] = dns.APLPrefix{Negation: it.Neg, Network: net.IPNet{IP: ip, Mask: net.CIDRMask(int(it.Prefix), 8*n)}}
			}
			field(rv, f.Go).Set(reflect.ValueOf(ps))
		case wire.Opts:
			os := make([]dns.EDNS0, len(v.Opts))
			for k, o := range v.Opts {
				os[k], err = OptToGo(o)
				if err != nil {
					return nil, err
				}
			}
			field(rv, f.Go).Set(reflect.ValueOf(os))
		case wire.SvcParams:
			ps := make([]dns.SVCBKeyValue, len(v.Params))
			for k, p := range v.Params {
				ps[k], err = ParamToGo(p)
				if err != nil {
					return nil, err
				}
			}
			field(rv, f.Go).Set(reflect.ValueOf(ps))
		default:
			panic("bind: kind")
		}
	}
	return rr, nil
}

// FromGo reads a library record back into the abstract form (the inverse of ToGo; fails if a field
// does not hold a well-formed representation).
func FromGo(rr dns.RR) (r *wire.RR, err error) {
	defer func() {
		if p := recover(); p != nil {
			err = fmt.Errorf("bind.FromGo(%T): %v", rr, p)
		}
	}()
	h := rr.Header()
	r = &wire.RR{Type: h.Rrtype, Class: h.Class, TTL: h.Ttl}
	if r.Name, err = Labels(h.Name); err != nil {
		return nil, fmt.Errorf("owner: %w", err)
	}
	if x, ok := rr.(*dns.RFC3597); ok {
		r.Generic = true
		r.Raw, err = hex.DecodeString(x.Rdata)
		if len(r.Raw) == 0 {
			r.NoRdata = true
		}
		return r, err
	}
	s := wire.Specs[h.Rrtype]
	if s == nil {
		return nil, fmt.Errorf("no spec for type %d (%T)", h.Rrtype, rr)
	}
	rv := reflect.ValueOf(rr).Elem()
	r.Vals = make([]wire.Val, len(s.Fields))
	for i, f := range s.Fields {
		v := &r.Vals[i]
		switch f.K {
		case wire.U8, wire.U16, wire.U32, wire.U48, wire.U64, wire.Len8, wire.Len16:
			v.U = field(rv, f.Go).Uint()
		case wire.Name, wire.CName:
			str := field(rv, f.Go).String()
			if str == "" { // empty string: field absent (RDATA-less record)
				continue
			}
			if v.L, err = Labels(str); err != nil {
				return nil, fmt.Errorf("%s: %w", f.Go, err)
			}
			v.Root = true
		case wire.Str, wire.Octet:
			if v.B, err = UnescTxt(field(rv, f.Go).String()); err != nil {
				return nil, fmt.Errorf("%s: %w", f.Go, err)
			}
		case wire.Txt:
			for _, x := range field(rv, f.Go).Interface().([]string) {
				b, err := UnescTxt(x)
				if err != nil {
					return nil, fmt.Errorf("%s: %w", f.Go, err)
				}
				v.L = append(v.L, b)
			}
		case wire.Any:
			v.B = []byte(field(rv, f.Go).String())
		case wire.Hex:
			if v.B, err = hex.DecodeString(field(rv, f.Go).String()); err != nil {
				return nil, fmt.Errorf("%s: %w", f.Go, err)
			}
		case wire.B64:
			if v.B, err = base64.StdEncoding.DecodeString(field(rv, f.Go).String()); err != nil {
				return nil, fmt.Errorf("%s: %w", f.Go, err)
			}
		case wire.B32:
			if v.B, err = b32.DecodeString(strings.ToUpper(field(rv, f.Go).String())); err != nil {
				return nil, fmt.Errorf("%s: %w", f.Go, err)
			}
		case wire.A:
			ip := field(rv, f.Go).Interface().(net.IP)
			if ip != nil {
				if v.B = ip.To4(); v.B == nil {
					return nil, fmt.Errorf("%s: not an IPv4 address: %v", f.Go, []byte(ip))
				}
			}
		case wire.AAAA:
			ip := field(rv, f.Go).Interface().(net.IP)
			if ip != nil {
				if v.B = ip.To16(); v.B == nil {
					return nil, fmt.Errorf("%s: not an IPv6 address: %v", f.Go, []byte(ip))
				}
			}
		case wire.Nsec:
			v.T = field(rv, f.Go).Interface().([]uint16)
		case wire.Gateway:
			tv := field(rv, f.TypeGo).Uint()
			ip := field(rv, "GatewayAddr").Interface().(net.IP)
			switch tv & f.Mask {
			case 1:
				v.B = ip.To4()
			case 2:
				v.B = ip.To16()
			case 3:
				if v.L, err = Labels(field(rv, "GatewayHost").String()); err != nil {
					return nil, fmt.Errorf("GatewayHost: %w", err)
				}
				v.Root = true
			}
		case wire.Names:
			for _, x := range field(rv, f.Go).Interface().([]string) {
				l, err := Labels(x)
				if err != nil {
					return nil, fmt.Errorf("%s: %w", f.Go, err)
				}
				v.N = append(v.N, l)
			}
		case wire.Apl:
			for _, p := range field(rv, f.Go).Interface().([]dns.APLPrefix) {
				ones, bits := p.Network.Mask.Size()
				it := wire.AplItem{Family: 1, Prefix: uint8(ones), Neg: p.Negation}
				if bits == 128 {
					it.Family = 2
				}
				a := []byte(p.Network.IP.Mask(p.Network.Mask))
				for len(a) > 0 && a[len(a)-1] == 0 {
					a = a[:len(a)-1]
				}
				it.Addr = a
				v.Apl = append(v.Apl, it)
			}
		case wire.Opts:
			for _, o := range field(rv, f.Go).Interface().([]dns.EDNS0) {
				x, err := OptFromGo(o)
				if err != nil {
					return nil, err
				}
				v.Opts = append(v.Opts, x)
			}
		case wire.SvcParams:
			for _, p := range field(rv, f.Go).Interface().([]dns.SVCBKeyValue) {
				x, err := ParamFromGo(p)
				if err != nil {
					return nil, err
				}
				v.Params = append(v.Params, x)
			}
		}
	}
	for i, f := range s.Fields {
		if f.K == wire.Len8 || f.K == wire.Len16 {
			for j, g := range s.Fields {
				if g.Go == f.Of && int(r.Vals[i].U) != len(r.Vals[j].B) {
					return nil, fmt.Errorf("%s = %d but %s holds %d octets", f.Go, r.Vals[i].U, g.Go, len(r.Vals[j].B))
				}
			}
		}
	}
	return r, nil
}

// EqualRR compares two abstract records field by field (nil and empty are the same).
func EqualRR(a, b *wire.RR) string {
	if !rn.Equal(a.Name, b.Name) {
		return fmt.Sprintf("owner %q vs %q", a.Name, b.Name)
	}
	if a.Type != b.Type || a.Class != b.Class || a.TTL != b.TTL {
		return fmt.Sprintf("header type/class/ttl %d/%d/%d vs %d/%d/%d", a.Type, a.Class, a.TTL, b.Type, b.Class, b.TTL)
	}
	if !bytes.Equal(a.Rdata(), b.Rdata()) {
		return fmt.Sprintf("rdata %x vs %x", a.Rdata(), b.Rdata())
	}
	return ""
}

// NameStrings returns the presentation strings held in the name-valued fields of rr (located through
// the reference table s).
func NameStrings(rr dns.RR, s *wire.Spec) []string {
	var out []string
	rv := reflect.ValueOf(rr).Elem()
	for _, f := range s.Fields {
		switch f.K {
		case wire.Name, wire.CName:
			out = append(out, field(rv, f.Go).String())
		case wire.Names:
			out = append(out, field(rv, f.Go).Interface().([]string)...)
		case wire.Gateway:
			out = append(out, field(rv, "GatewayHost").String())
		}
	}
	return out
}
