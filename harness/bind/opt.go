package bind

import (
	"encoding/binary"
	"encoding/hex"
	"fmt"
	"net"

	"github.com/miekg/dns"
	rn "verif/harness/ref/name"
	"verif/harness/ref/wire"
)

// EDNS0 options and SVCB parameters: the abstract form is (code, payload octets) with the payload laid
// out as the defining RFC says. OptToGo decodes a payload into the library's struct *by this model's
// reading of the RFC*; OptFromGo encodes the struct's fields back. The library's own pack/unpack of the
// option is what is being checked, and is not used here.

func be16(b []byte) uint16 { return binary.BigEndian.Uint16(b) }
func be32(b []byte) uint32 { return binary.BigEndian.Uint32(b) }

func OptToGo(o wire.Option) (dns.EDNS0, error) {
	d := o.Data
	bad := func() (dns.EDNS0, error) { return nil, fmt.Errorf("bind.OptToGo: payload %x is not a well-formed option %d", d, o.Code) }
	switch o.Code {
	case 1: // LLQ draft-sekar-dns-llq: version, opcode, error, id(8), lease(4)
		if len(d) != 18 {
			return bad()
		}
		return &dns.EDNS0_LLQ{Code: 1, Version: be16(d), Opcode: be16(d[2:]), Error: be16(d[4:]), Id: binary.BigEndian.Uint64(d[6:]), LeaseLife: be32(d[14:])}, nil
	case 2: // UL: lease [key-lease]
		switch len(d) {
		case 4:
			return &dns.EDNS0_UL{Code: 2, Lease: be32(d)}, nil
		case 8:
			return &dns.EDNS0_UL{Code: 2, Lease: be32(d), KeyLease: be32(d[4:])}, nil
		}
		return bad()
	case 3:
		return &dns.EDNS0_NSID{Code: 3, Nsid: hex.EncodeToString(d)}, nil
	case 4:
		return &dns.EDNS0_ESU{Code: 4, Uri: string(d)}, nil
	case 5:
		return &dns.EDNS0_DAU{Code: 5, AlgCode: append([]byte(nil), d...)}, nil
	case 6:
		return &dns.EDNS0_DHU{Code: 6, AlgCode: append([]byte(nil), d...)}, nil
	case 7:
		return &dns.EDNS0_N3U{Code: 7, AlgCode: append([]byte(nil), d...)}, nil
	case 8: // RFC 7871: family, source prefix, scope prefix, address truncated to ceil(source/8) octets
		if len(d) < 4 {
			return bad()
		}
		e := &dns.EDNS0_SUBNET{Code: 8, Family: be16(d), SourceNetmask: d[2], SourceScope: d[3]}
		switch e.Family {
		case 0:
			if len(d) != 4 {
				return bad()
			}
		case 1:
			ip := make(net.IP, 4)
			copy(ip, d[4:])
			e.Address = ip
		case 2:
			ip := make(net.IP, 16)
			copy(ip, d[4:])
			e.Address = ip
		default:
			return bad()
		}
		return e, nil
	case 9: // RFC 7314
		if len(d) == 0 {
			return &dns.EDNS0_EXPIRE{Code: 9, Empty: true}, nil
		}
		if len(d) != 4 {
			return bad()
		}
		return &dns.EDNS0_EXPIRE{Code: 9, Expire: be32(d)}, nil
	case 10:
		return &dns.EDNS0_COOKIE{Code: 10, Cookie: hex.EncodeToString(d)}, nil
	case 11: // RFC 7828
		if len(d) == 0 {
			return &dns.EDNS0_TCP_KEEPALIVE{Code: 11}, nil
		}
		if len(d) != 2 {
			return bad()
		}
		return &dns.EDNS0_TCP_KEEPALIVE{Code: 11, Timeout: be16(d)}, nil
	case 12:
		return &dns.EDNS0_PADDING{Padding: append([]byte(nil), d...)}, nil
	case 15: // RFC 8914
		if len(d) < 2 {
			return bad()
		}
		return &dns.EDNS0_EDE{InfoCode: be16(d), ExtraText: string(d[2:])}, nil
	case 18: // RFC 9567: agent domain, uncompressed wire name
		l, n, ok := rn.ParseWire(d)
		if !ok || n != len(d) {
			return bad()
		}
		return &dns.EDNS0_REPORTING{Code: 18, AgentDomain: LibName(l)}, nil
	case 19: // RFC 9660: empty in queries, else label count, type, version
		if len(d) == 0 {
			return nil, fmt.Errorf("bind.OptToGo: the library's EDNS0_ZONEVERSION cannot represent the empty (query) form")
		}
		if len(d) < 2 {
			return bad()
		}
		return &dns.EDNS0_ZONEVERSION{Code: 19, LabelCount: d[0], Type: d[1], Version: string(d[2:])}, nil
	}
	return &dns.EDNS0_LOCAL{Code: o.Code, Data: append([]byte(nil), d...)}, nil
}

func OptFromGo(e dns.EDNS0) (wire.Option, error) {
	o := wire.Option{Code: e.Option()}
	put16 := func(v uint16) { o.Data = binary.BigEndian.AppendUint16(o.Data, v) }
	put32 := func(v uint32) { o.Data = binary.BigEndian.AppendUint32(o.Data, v) }
	var err error
	switch x := e.(type) {
	case *dns.EDNS0_LLQ:
		put16(x.Version)
		put16(x.Opcode)
		put16(x.Error)
		o.Data = binary.BigEndian.AppendUint64(o.Data, x.Id)
		put32(x.LeaseLife)
	case *dns.EDNS0_UL:
		put32(x.Lease)
		if x.KeyLease != 0 {
			put32(x.KeyLease)
		}
	case *dns.EDNS0_NSID:
		o.Data, err = hex.DecodeString(x.Nsid)
	case *dns.EDNS0_ESU:
		o.Data = []byte(x.Uri)
	case *dns.EDNS0_DAU:
		o.Data = x.AlgCode
	case *dns.EDNS0_DHU:
		o.Data = x.AlgCode
	case *dns.EDNS0_N3U:
		o.Data = x.AlgCode
	case *dns.EDNS0_SUBNET:
		put16(x.Family)
		o.Data = append(o.Data, x.SourceNetmask, x.SourceScope)
		var ip []byte
		switch x.Family {
		case 1:
			ip = x.Address.To4()
		case 2:
			ip = x.Address.To16()
		}
		n := (int(x.SourceNetmask) + 7) / 8
		if n > len(ip) {
			n = len(ip)
		}
		a := append([]byte(nil), ip[:n]...)
		if r := int(x.SourceNetmask) % 8; r != 0 && n > 0 {
			a[n-1] &= byte(0xff << (8 - r))
		}
		o.Data = append(o.Data, a...)
	case *dns.EDNS0_EXPIRE:
		if !x.Empty {
			put32(x.Expire)
		}
	case *dns.EDNS0_COOKIE:
		o.Data, err = hex.DecodeString(x.Cookie)
	case *dns.EDNS0_TCP_KEEPALIVE:
		if x.Timeout != 0 {
			put16(x.Timeout)
		}
	case *dns.EDNS0_PADDING:
		o.Data = x.Padding
	case *dns.EDNS0_EDE:
		put16(x.InfoCode)
		o.Data = append(o.Data, x.ExtraText...)
	case *dns.EDNS0_REPORTING:
		var l [][]byte
		l, err = Labels(dns.Fqdn(x.AgentDomain))
		o.Data = rn.Wire(l)
	case *dns.EDNS0_ZONEVERSION:
		o.Data = append([]byte{x.LabelCount, x.Type}, x.Version...)
	case *dns.EDNS0_LOCAL:
		o.Data = x.Data
	default:
		err = fmt.Errorf("bind.OptFromGo: unknown option type %T", e)
	}
	return o, err
}

func ParamToGo(p wire.Param) (dns.SVCBKeyValue, error) {
	d := p.Data
	bad := func() (dns.SVCBKeyValue, error) { return nil, fmt.Errorf("bind.ParamToGo: value %x is not a well-formed SvcParam %d", d, p.Key) }
	switch p.Key {
	case 0: // mandatory: list of keys
		if len(d)%2 != 0 || len(d) == 0 {
			return bad()
		}
		m := &dns.SVCBMandatory{}
		for i := 0; i < len(d); i += 2 {
			m.Code = append(m.Code, dns.SVCBKey(be16(d[i:])))
		}
		return m, nil
	case 1: // alpn: length-prefixed ids
		a := &dns.SVCBAlpn{}
		for i := 0; i < len(d); {
			n := int(d[i])
			if n == 0 || i+1+n > len(d) {
				return bad()
			}
			a.Alpn = append(a.Alpn, string(d[i+1:i+1+n]))
			i += 1 + n
		}
		if len(a.Alpn) == 0 {
			return bad()
		}
		return a, nil
	case 2:
		if len(d) != 0 {
			return bad()
		}
		return &dns.SVCBNoDefaultAlpn{}, nil
	case 3:
		if len(d) != 2 {
			return bad()
		}
		return &dns.SVCBPort{Port: be16(d)}, nil
	case 4:
		if len(d) == 0 || len(d)%4 != 0 {
			return bad()
		}
		h := &dns.SVCBIPv4Hint{}
		for i := 0; i < len(d); i += 4 {
			h.Hint = append(h.Hint, net.IP(append([]byte(nil), d[i:i+4]...)))
		}
		return h, nil
	case 5:
		return &dns.SVCBECHConfig{ECH: append([]byte(nil), d...)}, nil
	case 6:
		if len(d) == 0 || len(d)%16 != 0 {
			return bad()
		}
		h := &dns.SVCBIPv6Hint{}
		for i := 0; i < len(d); i += 16 {
			h.Hint = append(h.Hint, net.IP(append([]byte(nil), d[i:i+16]...)))
		}
		return h, nil
	case 7:
		return &dns.SVCBDoHPath{Template: string(d)}, nil
	case 8:
		if len(d) != 0 {
			return bad()
		}
		return &dns.SVCBOhttp{}, nil
	case 65535:
		return bad()
	}
	return &dns.SVCBLocal{KeyCode: dns.SVCBKey(p.Key), Data: append([]byte(nil), d...)}, nil
}

func ParamFromGo(kv dns.SVCBKeyValue) (wire.Param, error) {
	p := wire.Param{Key: uint16(kv.Key())}
	switch x := kv.(type) {
	case *dns.SVCBMandatory:
		for _, c := range x.Code {
			p.Data = binary.BigEndian.AppendUint16(p.Data, uint16(c))
		}
	case *dns.SVCBAlpn:
		for _, a := range x.Alpn {
			p.Data = append(p.Data, byte(len(a)))
			p.Data = append(p.Data, a...)
		}
	case *dns.SVCBNoDefaultAlpn, *dns.SVCBOhttp:
	case *dns.SVCBPort:
		p.Data = binary.BigEndian.AppendUint16(p.Data, x.Port)
	case *dns.SVCBIPv4Hint:
		for _, ip := range x.Hint {
			v4 := ip.To4()
			if v4 == nil {
				return p, fmt.Errorf("ipv4hint holds %v", []byte(ip))
			}
			p.Data = append(p.Data, v4...)
		}
	case *dns.SVCBIPv6Hint:
		for _, ip := range x.Hint {
			if len(ip) != 16 {
				return p, fmt.Errorf("ipv6hint holds %v", []byte(ip))
			}
			p.Data = append(p.Data, ip...)
		}
	case *dns.SVCBECHConfig:
		p.Data = x.ECH
	case *dns.SVCBDoHPath:
		p.Data = []byte(x.Template)
	case *dns.SVCBLocal:
		p.Data = x.Data
	default:
		return p, fmt.Errorf("bind.ParamFromGo: unknown type %T", kv)
	}
	return p, nil
}
