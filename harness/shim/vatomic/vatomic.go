//go:build verif

// Package vatomic replaces sync/atomic for the files put under the controlled scheduler. Every operation is
// a scheduling point. Happens-before edges follow the Go memory model: an atomic operation that observes the
// effect of an earlier one is synchronised after it — loads acquire, stores release, read-modify-write
// operations do both, per location. Injected at build time as github.com/miekg/dns/verifshim/vatomic.
package vatomic

import (
	"unsafe"

	"github.com/miekg/dns/verifshim/vsched"
)

func load(op string, addr any) { vsched.PointO("atomic."+op, addr, nil); vsched.Acquire(addr) }
func store(op string, addr any) {
	vsched.PointO("atomic."+op, addr, nil)
	vsched.Acquire(addr)
	vsched.Release(addr)
}

type integer interface {
	~int32 | ~int64 | ~uint32 | ~uint64 | ~uintptr
}

func loadOf[T any](op string, p *T) T          { load(op, p); return *p }
func storeOf[T any](op string, p *T, v T)      { store(op, p); *p = v }
func swapOf[T any](op string, p *T, v T) (o T) { store(op, p); o, *p = *p, v; return }
func addOf[T integer](op string, p *T, d T) T  { store(op, p); *p += d; return *p }
func casOf[T comparable](op string, p *T, o, n T) bool {
	store(op, p)
	if *p == o {
		*p = n
		return true
	}
	return false
}

func LoadInt32(p *int32) int32                     { return loadOf("LoadInt32", p) }
func LoadInt64(p *int64) int64                     { return loadOf("LoadInt64", p) }
func LoadUint32(p *uint32) uint32                  { return loadOf("LoadUint32", p) }
func LoadUint64(p *uint64) uint64                  { return loadOf("LoadUint64", p) }
func LoadUintptr(p *uintptr) uintptr               { return loadOf("LoadUintptr", p) }
func LoadPointer(p *unsafe.Pointer) unsafe.Pointer { return loadOf("LoadPointer", p) }

func StoreInt32(p *int32, v int32)                     { storeOf("StoreInt32", p, v) }
func StoreInt64(p *int64, v int64)                     { storeOf("StoreInt64", p, v) }
func StoreUint32(p *uint32, v uint32)                  { storeOf("StoreUint32", p, v) }
func StoreUint64(p *uint64, v uint64)                  { storeOf("StoreUint64", p, v) }
func StoreUintptr(p *uintptr, v uintptr)               { storeOf("StoreUintptr", p, v) }
func StorePointer(p *unsafe.Pointer, v unsafe.Pointer) { storeOf("StorePointer", p, v) }

func SwapInt32(p *int32, v int32) int32         { return swapOf("SwapInt32", p, v) }
func SwapInt64(p *int64, v int64) int64         { return swapOf("SwapInt64", p, v) }
func SwapUint32(p *uint32, v uint32) uint32     { return swapOf("SwapUint32", p, v) }
func SwapUint64(p *uint64, v uint64) uint64     { return swapOf("SwapUint64", p, v) }
func SwapUintptr(p *uintptr, v uintptr) uintptr { return swapOf("SwapUintptr", p, v) }
func SwapPointer(p *unsafe.Pointer, v unsafe.Pointer) unsafe.Pointer {
	return swapOf("SwapPointer", p, v)
}

func AddInt32(p *int32, d int32) int32         { return addOf("AddInt32", p, d) }
func AddInt64(p *int64, d int64) int64         { return addOf("AddInt64", p, d) }
func AddUint32(p *uint32, d uint32) uint32     { return addOf("AddUint32", p, d) }
func AddUint64(p *uint64, d uint64) uint64     { return addOf("AddUint64", p, d) }
func AddUintptr(p *uintptr, d uintptr) uintptr { return addOf("AddUintptr", p, d) }

func CompareAndSwapInt32(p *int32, o, n int32) bool    { return casOf("CompareAndSwapInt32", p, o, n) }
func CompareAndSwapInt64(p *int64, o, n int64) bool    { return casOf("CompareAndSwapInt64", p, o, n) }
func CompareAndSwapUint32(p *uint32, o, n uint32) bool { return casOf("CompareAndSwapUint32", p, o, n) }
func CompareAndSwapUint64(p *uint64, o, n uint64) bool { return casOf("CompareAndSwapUint64", p, o, n) }
func CompareAndSwapUintptr(p *uintptr, o, n uintptr) bool {
	return casOf("CompareAndSwapUintptr", p, o, n)
}
func CompareAndSwapPointer(p *unsafe.Pointer, o, n unsafe.Pointer) bool {
	return casOf("CompareAndSwapPointer", p, o, n)
}

// typed values

type Int32 struct{ v int32 }

func (x *Int32) Load() int32                    { return loadOf("Int32.Load", &x.v) }
func (x *Int32) Store(v int32)                  { storeOf("Int32.Store", &x.v, v) }
func (x *Int32) Swap(v int32) int32             { return swapOf("Int32.Swap", &x.v, v) }
func (x *Int32) Add(d int32) int32              { return addOf("Int32.Add", &x.v, d) }
func (x *Int32) CompareAndSwap(o, n int32) bool { return casOf("Int32.CompareAndSwap", &x.v, o, n) }

type Int64 struct{ v int64 }

func (x *Int64) Load() int64                    { return loadOf("Int64.Load", &x.v) }
func (x *Int64) Store(v int64)                  { storeOf("Int64.Store", &x.v, v) }
func (x *Int64) Swap(v int64) int64             { return swapOf("Int64.Swap", &x.v, v) }
func (x *Int64) Add(d int64) int64              { return addOf("Int64.Add", &x.v, d) }
func (x *Int64) CompareAndSwap(o, n int64) bool { return casOf("Int64.CompareAndSwap", &x.v, o, n) }

type Uint32 struct{ v uint32 }

func (x *Uint32) Load() uint32                    { return loadOf("Uint32.Load", &x.v) }
func (x *Uint32) Store(v uint32)                  { storeOf("Uint32.Store", &x.v, v) }
func (x *Uint32) Swap(v uint32) uint32            { return swapOf("Uint32.Swap", &x.v, v) }
func (x *Uint32) Add(d uint32) uint32             { return addOf("Uint32.Add", &x.v, d) }
func (x *Uint32) CompareAndSwap(o, n uint32) bool { return casOf("Uint32.CompareAndSwap", &x.v, o, n) }

type Uint64 struct{ v uint64 }

func (x *Uint64) Load() uint64                    { return loadOf("Uint64.Load", &x.v) }
func (x *Uint64) Store(v uint64)                  { storeOf("Uint64.Store", &x.v, v) }
func (x *Uint64) Swap(v uint64) uint64            { return swapOf("Uint64.Swap", &x.v, v) }
func (x *Uint64) Add(d uint64) uint64             { return addOf("Uint64.Add", &x.v, d) }
func (x *Uint64) CompareAndSwap(o, n uint64) bool { return casOf("Uint64.CompareAndSwap", &x.v, o, n) }

type Uintptr struct{ v uintptr }

func (x *Uintptr) Load() uintptr          { return loadOf("Uintptr.Load", &x.v) }
func (x *Uintptr) Store(v uintptr)        { storeOf("Uintptr.Store", &x.v, v) }
func (x *Uintptr) Swap(v uintptr) uintptr { return swapOf("Uintptr.Swap", &x.v, v) }
func (x *Uintptr) Add(d uintptr) uintptr  { return addOf("Uintptr.Add", &x.v, d) }
func (x *Uintptr) CompareAndSwap(o, n uintptr) bool {
	return casOf("Uintptr.CompareAndSwap", &x.v, o, n)
}

type Bool struct{ v bool }

func (x *Bool) Load() bool                    { return loadOf("Bool.Load", &x.v) }
func (x *Bool) Store(v bool)                  { storeOf("Bool.Store", &x.v, v) }
func (x *Bool) Swap(v bool) bool              { return swapOf("Bool.Swap", &x.v, v) }
func (x *Bool) CompareAndSwap(o, n bool) bool { return casOf("Bool.CompareAndSwap", &x.v, o, n) }

type Pointer[T any] struct{ v *T }

func (x *Pointer[T]) Load() *T                    { return loadOf("Pointer.Load", &x.v) }
func (x *Pointer[T]) Store(v *T)                  { storeOf("Pointer.Store", &x.v, v) }
func (x *Pointer[T]) Swap(v *T) *T                { return swapOf("Pointer.Swap", &x.v, v) }
func (x *Pointer[T]) CompareAndSwap(o, n *T) bool { return casOf("Pointer.CompareAndSwap", &x.v, o, n) }

// Value holds any value (the consistent-type panic of sync/atomic.Value is not reproduced).
type Value struct {
	v   any
	set bool
}

func (x *Value) Load() any { load("Value.Load", x); return x.v }
func (x *Value) Store(v any) {
	if v == nil {
		panic("sync/atomic: store of nil value into Value")
	}
	store("Value.Store", x)
	x.v, x.set = v, true
}
func (x *Value) Swap(v any) any {
	if v == nil {
		panic("sync/atomic: swap of nil value into Value")
	}
	store("Value.Swap", x)
	o := x.v
	x.v, x.set = v, true
	return o
}
func (x *Value) CompareAndSwap(o, n any) bool {
	if n == nil {
		panic("sync/atomic: compare and swap of nil value into Value")
	}
	store("Value.CompareAndSwap", x)
	if x.v == o {
		x.v, x.set = n, true
		return true
	}
	return false
}
