//go:build verif

// Package vsched is a cooperative, controlled scheduler: real goroutines, exactly one of which holds the
// run token. Every operation on a shared synchronisation or I/O object of the code under test is preceded
// by a call to Point, where the scheduler decides — from a recorded choice prefix, else by the default rule
// "keep running the current thread, else the lowest id" — which enabled thread runs next. Blocking
// operations never block for real: they are disabled until their predicate holds.
//
// This file is injected into the dns module at build time (go build -overlay) as
// github.com/miekg/dns/verifshim/vsched; it is not part of the repository.
package vsched

import (
	"fmt"
	"runtime"
	"runtime/debug"
	"sort"
	"strings"
	"sync"
	"unsafe"
)

type Thread struct {
	ID      int
	Name    string
	wake    chan struct{}
	enabled func() bool
	done    bool
	Op      string // operation the thread is about to perform (or performed last)
	Obj     int    // id of the object that operation works on within this execution; 0 = global (depends on everything)
	quiet   bool   // waiting for quiescence (harness threads only)
	daemon  bool
	vc      []int // vector clock
}

type PointRec struct {
	Running      int
	Enabled      []int
	Chosen       int // index into Enabled
	RunningStill bool
	Op           string
	// for the partial-order reduction of e2x: what each enabled thread is about to do, and how much had been logged /
	// whether the transition that led here made a global observation
	Pend   []Pending
	LogLen int
	Global bool // the transition executed since the previous point read scheduler-wide state (Live)
}

// Pending is the next visible operation of an enabled thread.
type Pending struct {
	Tid int
	Op  string
	Obj int
}

type Race struct {
	Label string
	A, B  string // access descriptions
}

type Exec struct {
	Prefix   []int
	Points   []PointRec
	Log      []string
	Deadlock bool     // some thread not finished and none enabled
	Blocked  []string // "name@op" of the threads left blocked at the end
	Panic    string
	Diverged string // replay divergence (internal error)
	Races    []Race
	States   map[uint64]struct{}

	threads   []*Thread
	cur       *Thread
	finished  chan struct{}
	active    bool
	killed    bool
	wg        sync.WaitGroup
	mem       map[uintptr]*shadow
	objClock  map[any][]int
	HashState func() uint64 // optional extra state supplied by the scenario
	Pruned    bool          // the chooser found every enabled thread asleep (redundant execution, cut short)
	objID     map[any]int
	global    bool
	logHash   uint64
	keep      []unsafe.Pointer
}

// X is the execution in progress (nil outside Run).
var X *Exec

func Active() bool { return X != nil && X.active }

func Logf(f string, a ...any) {
	if X != nil {
		l := fmt.Sprintf(f, a...)
		X.Log = append(X.Log, l)
		X.logHash = (X.logHash ^ strHash(l)) * 1099511628211
	}
}

// Self returns the running thread's name (for logs).
func Self() string {
	if Active() {
		return X.cur.Name
	}
	return "?"
}

// Run executes body as thread 0 ("main") under the given choice prefix and returns when every thread has
// finished, or none is enabled, or a thread panicked. Threads still parked at that moment are unwound with
// runtime.Goexit (their deferred calls run with the scheduler inactive).
func Run(prefix []int, body func()) *Exec {
	x := &Exec{Prefix: prefix, finished: make(chan struct{}), active: true, States: map[uint64]struct{}{}, mem: map[uintptr]*shadow{}, objClock: map[any][]int{}}
	X = x
	t := &Thread{ID: 0, Name: "main", wake: make(chan struct{}, 1), vc: []int{1}}
	x.threads = append(x.threads, t)
	x.cur = t
	x.wg.Add(1)
	go x.runThread(t, body)
	t.wake <- struct{}{}
	<-x.finished
	x.active = false
	// unwind parked threads
	x.killed = true
	for _, th := range x.threads {
		if !th.done {
			select {
			case th.wake <- struct{}{}:
			default:
			}
		}
	}
	x.wg.Wait()
	X = nil
	return x
}

type killedT struct{}

func (x *Exec) finish() {
	if x.active {
		x.active = false
		close(x.finished)
	}
}

func (x *Exec) runThread(t *Thread, body func()) {
	defer x.wg.Done()
	<-t.wake
	if x.killed {
		return
	}
	defer func() {
		if r := recover(); r != nil {
			if _, ok := r.(killedT); ok {
				return
			}
			if x.active {
				x.Panic = fmt.Sprintf("thread %s: %v\n%s", t.Name, r, trim(debug.Stack()))
				t.done = true
				x.finish()
			}
			return
		}
		if !x.active {
			return
		}
		t.done = true
		t.Op = "exit"
		t.Obj = 0
		x.schedule(t)
	}()
	body()
}

func trim(b []byte) string {
	s := string(b)
	if len(s) > 3000 {
		s = s[:3000]
	}
	return s
}

// Go spawns a new scheduled thread (spawn is a scheduling point of the parent).
func Go(f func()) { GoNamed("", f) }

func GoNamed(name string, f func()) {
	x := X
	if !Active() {
		go f()
		return
	}
	parent := x.cur
	id := len(x.threads)
	if name == "" {
		name = fmt.Sprintf("t%d", id)
	}
	t := &Thread{ID: id, Name: name, wake: make(chan struct{}, 1), Op: "start"}
	// fork the vector clock
	t.vc = make([]int, id+1)
	copy(t.vc, parent.vc)
	t.vc[id] = 1
	parent.tick()
	x.threads = append(x.threads, t)
	x.wg.Add(1)
	go x.runThread(t, f)
	Point("go", nil)
}

func (t *Thread) tick() {
	for len(t.vc) <= t.ID {
		t.vc = append(t.vc, 0)
	}
	t.vc[t.ID]++
}

// Point is a scheduling point before a visible operation of the running thread. enabled == nil means the
// operation never blocks. The operation counts as global: dependent on every other operation.
func Point(op string, enabled func() bool) { PointO(op, nil, enabled) }

// PointO is Point for an operation on one shared object (a mutex, a wait group, a connection buffer …): two
// operations on different objects commute (the code under test is checked to be free of data races, so whatever
// else the two threads touch before their next point is ordered through such objects).
func PointO(op string, obj any, enabled func() bool) {
	x := X
	if !Active() {
		return
	}
	t := x.cur
	t.enabled = enabled
	t.Op = op
	t.Obj = 0
	if obj != nil {
		if x.objID == nil {
			x.objID = map[any]int{}
		}
		id, ok := x.objID[obj]
		if !ok {
			id = len(x.objID) + 1
			x.objID[obj] = id
		}
		t.Obj = id
	}
	x.schedule(t)
	t.enabled = nil
}

// Chooser, when set, is asked at every scheduling point; prescribed is the choice the prefix dictates or -1
// beyond it. It returns the index into rec.Enabled to run, or -1 to cut the execution short (Pruned).
var Chooser func(x *Exec, rec *PointRec, prescribed int) int

// AwaitQuiescence blocks the calling (harness) thread until no other thread is enabled.
func AwaitQuiescence() {
	x := X
	if !Active() {
		return
	}
	t := x.cur
	t.quiet = true
	t.Op = "await-quiescence"
	t.Obj = 0
	x.schedule(t)
	t.quiet = false
}

// Live returns "name@op" for every thread that has not finished (the caller included).
func Live() []string {
	var out []string
	if Active() {
		X.global = true // reads the position of every thread
		for _, t := range X.threads {
			if !t.done {
				out = append(out, t.Name+"@"+t.Op)
			}
		}
	}
	return out
}

// Daemon marks the calling thread as one that may legitimately remain blocked when the execution ends.
func Daemon() {
	if Active() {
		X.cur.daemon = true
	}
}

var opHash = map[string]uint64{}

func strHash(s string) uint64 {
	if h, ok := opHash[s]; ok {
		return h
	}
	h := uint64(14695981039346656037)
	for i := 0; i < len(s); i++ {
		h = (h ^ uint64(s[i])) * 1099511628211
	}
	opHash[s] = h
	return h
}

func (x *Exec) stateHash() uint64 {
	h := uint64(14695981039346656037)
	for _, t := range x.threads {
		v := strHash(t.Op) + uint64(t.ID)*0x9e3779b97f4a7c15
		if t.done {
			v ^= 0xdeadbeef
		}
		h = (h ^ v) * 1099511628211
	}
	h = (h ^ x.logHash) * 1099511628211
	if x.HashState != nil {
		h ^= x.HashState() * 1099511628211
	}
	return h
}

func (x *Exec) schedule(self *Thread) {
	var en []int
	selfIdx := -1
	for _, t := range x.threads {
		if t.done || t.quiet {
			continue
		}
		if t.enabled == nil || t.enabled() {
			if t == self {
				selfIdx = len(en)
			}
			en = append(en, t.ID)
		}
	}
	if len(en) == 0 {
		// quiescent: harness threads waiting for quiescence become enabled
		for _, t := range x.threads {
			if !t.done && t.quiet {
				if t == self {
					selfIdx = len(en)
				}
				en = append(en, t.ID)
			}
		}
	}
	if len(en) == 0 {
		for _, t := range x.threads {
			if !t.done {
				x.Blocked = append(x.Blocked, t.Name+"@"+t.Op)
				if !t.daemon {
					x.Deadlock = true
				}
			}
		}
		x.finish()
		if !self.done {
			<-self.wake // parked until Run unwinds us
			panic(killedT{})
		}
		return
	}
	// canonical order: the running thread first if still enabled, the rest ascending
	if selfIdx > 0 {
		id := en[selfIdx]
		copy(en[1:selfIdx+1], en[:selfIdx])
		en[0] = id
	}
	choice := 0
	prescribed := -1
	if n := len(x.Points); n < len(x.Prefix) {
		choice = x.Prefix[n]
		prescribed = choice
		if choice >= len(en) {
			x.Diverged = fmt.Sprintf("replay divergence at point %d: choice %d of %d enabled (op %s)", n, choice, len(en), self.Op)
			x.finish()
			if !self.done {
				<-self.wake
				panic(killedT{})
			}
			return
		}
	}
	rec := PointRec{Running: self.ID, Enabled: en, Chosen: choice, RunningStill: selfIdx >= 0, Op: self.Op, LogLen: len(x.Log), Global: x.global}
	x.global = false
	if Chooser != nil {
		rec.Pend = make([]Pending, len(en))
		for i, id := range en {
			th := x.threads[id]
			rec.Pend[i] = Pending{Tid: id, Op: th.Op, Obj: th.Obj}
		}
		choice = Chooser(x, &rec, prescribed)
		if choice < 0 {
			x.Pruned = true
			x.finish()
			if !self.done {
				<-self.wake
				panic(killedT{})
			}
			return
		}
		rec.Chosen = choice
	}
	x.Points = append(x.Points, rec)
	x.States[x.stateHash()] = struct{}{}
	next := x.threads[en[choice]]
	if next == self {
		return
	}
	x.cur = next
	next.wake <- struct{}{}
	if self.done {
		return
	}
	<-self.wake
	if x.killed {
		panic(killedT{})
	}
}

// Choose is a point of environment nondeterminism owned by the scheduler (e.g. map iteration order): it
// returns a value in [0,n) taken from the choice prefix, default 0. Alternatives cost no preemption.
func Choose(n int, label string) int {
	x := X
	if !Active() || n <= 1 {
		return 0
	}
	choice := 0
	if k := len(x.Points); k < len(x.Prefix) {
		choice = x.Prefix[k]
		if choice >= n {
			x.Diverged = fmt.Sprintf("replay divergence at point %d: choice %d of %d values (choose %s)", k, choice, n, label)
			x.finish()
			<-x.cur.wake
			panic(killedT{})
		}
	}
	en := make([]int, n)
	for i := range en {
		en[i] = i
	}
	rec := PointRec{Running: x.cur.ID, Enabled: en, Chosen: choice, RunningStill: false, Op: "choose:" + label, LogLen: len(x.Log), Global: true}
	x.global = false
	if Chooser != nil {
		prescribed := -1
		if k := len(x.Points); k < len(x.Prefix) {
			prescribed = choice
		}
		choice = Chooser(x, &rec, prescribed)
		if choice < 0 {
			x.Pruned = true
			x.finish()
			<-x.cur.wake
			panic(killedT{})
		}
		rec.Chosen = choice
	}
	x.Points = append(x.Points, rec)
	return choice
}

// MapKeys returns the keys of m in an order chosen by the scheduler (every permutation is explored).
func MapKeys[K comparable, V any](m map[K]V) []K {
	keys := make([]K, 0, len(m))
	for k := range m {
		keys = append(keys, k)
	}
	sort.Slice(keys, func(i, j int) bool { return fmt.Sprint(keys[i]) < fmt.Sprint(keys[j]) })
	for i := 0; i+1 < len(keys); i++ {
		j := i + Choose(len(keys)-i, "map-order")
		keys[i], keys[j] = keys[j], keys[i]
	}
	return keys
}

// Close closes a channel (a visible operation; release edge for the race check).
func Close[T any](c chan T) {
	PointO("close", any((<-chan T)(c)), nil)
	Release(any((<-chan T)(c)))
	close(c)
}

// Select waits until one of the close-only channels is closed and returns its index.
func Select(cs ...<-chan struct{}) int {
	ready := func() int {
		for i, c := range cs {
			if c == nil {
				continue
			}
			select {
			case <-c:
				return i
			default:
			}
		}
		return -1
	}
	if !Active() {
		for {
			if i := ready(); i >= 0 {
				return i
			}
			runtime.Gosched()
		}
	}
	Point("select", func() bool { return ready() >= 0 })
	i := ready()
	if i >= 0 {
		Acquire(any(cs[i]))
	}
	return i
}

// ---------------------------------------------------------------------------------------------
// happens-before tracking (vector clocks) and the race check on instrumented accesses

func join(a, b []int) []int {
	for len(a) < len(b) {
		a = append(a, 0)
	}
	for i, v := range b {
		if v > a[i] {
			a[i] = v
		}
	}
	return a
}

// Release publishes the running thread's clock on obj; Acquire joins obj's clock into the running thread.
func Release(obj any) {
	if !Active() {
		return
	}
	t := X.cur
	X.objClock[obj] = join(append([]int(nil), X.objClock[obj]...), t.vc)
	t.tick()
}

func Acquire(obj any) {
	if !Active() {
		return
	}
	t := X.cur
	t.vc = join(t.vc, X.objClock[obj])
}

type access struct {
	tid   int
	clock int
	write bool
	label string
	name  string
}

func (a *access) where() string { return fmt.Sprintf("%s %s by %s", rw(a.write), a.label, a.name) }

type shadow struct {
	w     *access
	reads []access
}

func (t *Thread) hb(a *access) bool { // did a happen before t's current point?
	return a.tid == t.ID || (a.tid < len(t.vc) && t.vc[a.tid] >= a.clock)
}

// Access records a read or write of the memory at p (FastTrack-style check against earlier accesses).
func Access(p unsafe.Pointer, write bool, label string) {
	x := X
	if !Active() {
		return
	}
	t := x.cur
	s := x.mem[uintptr(p)]
	if s == nil {
		s = &shadow{}
		x.mem[uintptr(p)] = s
		x.keep = append(x.keep, p) // keeps the object alive: its address cannot be reused within this execution
	}
	me := access{t.ID, t.vc[t.ID], write, label, t.Name}
	if s.w != nil && !t.hb(s.w) {
		x.race(label, s.w.where(), me.where())
	}
	if write {
		for i := range s.reads {
			if !t.hb(&s.reads[i]) {
				x.race(label, s.reads[i].where(), me.where())
			}
		}
		s.w = &me
		s.reads = s.reads[:0]
	} else {
		for i := range s.reads {
			if s.reads[i].tid == t.ID {
				s.reads[i] = me
				return
			}
		}
		s.reads = append(s.reads, me)
	}
}

func rw(w bool) string {
	if w {
		return "write"
	}
	return "read"
}

func (x *Exec) race(label, a, b string) {
	for _, r := range x.Races {
		if r.Label == label {
			return
		}
	}
	x.Races = append(x.Races, Race{label, a, b})
}

// Summary renders the schedule compactly.
func (x *Exec) Summary() string {
	var sb strings.Builder
	for i, p := range x.Points {
		fmt.Fprintf(&sb, "%d:t%d %s en=%v→%d\n", i, p.Running, p.Op, p.Enabled, p.Enabled[p.Chosen])
	}
	return sb.String()
}

// Choices returns the choice sequence taken.
func (x *Exec) Choices() []int {
	c := make([]int, len(x.Points))
	for i, p := range x.Points {
		c[i] = p.Chosen
	}
	return c
}

// ThreadNames lists threads (id order).
func (x *Exec) ThreadNames() []string {
	var n []string
	for _, t := range x.threads {
		n = append(n, t.Name)
	}
	sort.Strings(n)
	return n
}
