//go:build verif

// Package simnet provides in-memory net.Listener / net.Conn / net.PacketConn whose every method is a
// scheduling point of vsched and which never block for real. Deadlines: a deadline before the harness
// start time (the server's aLongTimeAgo) is "expired", anything later is "pending" and only fires when the
// harness calls Fire. Injected at build time as github.com/miekg/dns/verifshim/simnet.
package simnet

import (
	"errors"
	"io"
	"net"
	"os"
	"time"

	"github.com/miekg/dns/verifshim/vsched"
)

type Addr string

func (a Addr) Network() string { return "sim" }
func (a Addr) String() string  { return string(a) }

var start = time.Now()

func expired(t time.Time) bool { return !t.IsZero() && t.Before(start) }

// ------------------------------------------------------------------------------------------ datagrams

type Dgram struct {
	B    []byte
	From net.Addr
}

type PacketConn struct {
	Name          string
	In            []Dgram // towards the server
	Out           []Dgram // written by the server
	Closed        bool
	expired       bool
	pending       bool
	Reads, Closes int
}

func NewPacketConn(name string) *PacketConn { return &PacketConn{Name: name} }

// Inject delivers a datagram to the socket (a harness/client operation).
func (p *PacketConn) Inject(b []byte, from string) {
	vsched.PointO(p.Name+".inject", p, nil)
	vsched.Release(p)
	p.In = append(p.In, Dgram{append([]byte(nil), b...), Addr(from)})
}

func (p *PacketConn) ReadFrom(b []byte) (int, net.Addr, error) {
	vsched.PointO(p.Name+".ReadFrom", p, func() bool { return len(p.In) > 0 || p.Closed || p.expired })
	p.Reads++
	if p.Closed {
		return 0, nil, net.ErrClosed
	}
	if p.expired {
		return 0, nil, os.ErrDeadlineExceeded
	}
	vsched.Acquire(p)
	d := p.In[0]
	p.In = p.In[1:]
	n := copy(b, d.B)
	return n, d.From, nil
}

func (p *PacketConn) WriteTo(b []byte, a net.Addr) (int, error) {
	vsched.PointO(p.Name+".WriteTo", p, nil)
	if p.Closed {
		return 0, net.ErrClosed
	}
	vsched.Release(outKey{p})
	p.Out = append(p.Out, Dgram{append([]byte(nil), b...), a})
	return len(b), nil
}

type outKey struct{ p *PacketConn }

// Recv is the client side: wait for a datagram addressed to addr (enabled when one is there or the socket is closed).
func (p *PacketConn) Recv(addr string) ([]byte, bool) {
	find := func() int {
		for i, d := range p.Out {
			if d.From != nil && d.From.String() == addr {
				return i
			}
		}
		return -1
	}
	vsched.PointO(p.Name+".recv", p, func() bool { return find() >= 0 || p.Closed })
	i := find()
	if i < 0 {
		return nil, false
	}
	vsched.Acquire(outKey{p})
	b := p.Out[i].B
	p.Out = append(p.Out[:i:i], p.Out[i+1:]...)
	return b, true
}

func (p *PacketConn) Close() error {
	vsched.Point(p.Name+".Close", nil)
	p.Closes++
	if p.Closed {
		return net.ErrClosed
	}
	p.Closed = true
	return nil
}
func (p *PacketConn) LocalAddr() net.Addr           { return Addr("server") }
func (p *PacketConn) SetDeadline(t time.Time) error { return p.SetReadDeadline(t) }
func (p *PacketConn) SetReadDeadline(t time.Time) error {
	vsched.Point(p.Name+".SetReadDeadline", nil)
	p.expired = expired(t)
	p.pending = !t.IsZero() && !p.expired
	return nil
}
func (p *PacketConn) SetWriteDeadline(t time.Time) error { return nil }

// Fire expires a pending read deadline (environment deviation).
func (p *PacketConn) Fire() bool {
	vsched.Point(p.Name+".fire", nil)
	if p.pending {
		p.pending, p.expired = false, true
		return true
	}
	return false
}

// ------------------------------------------------------------------------------------------ streams

type pipeHalf struct {
	buf    []byte
	closed bool // writer side closed
}

// Conn is one end of an in-memory stream.
type Conn struct {
	Name          string
	rd, wr        *pipeHalf
	peer          *Conn
	Closed        bool
	expired       bool
	pending       bool
	MaxRead       int // 0 = everything available; else at most this many octets per Read (segmentation)
	local, remote Addr
	Closes        int
	lazyHandshake bool
	handshook     bool
}

// Pipe returns the two ends (client, server) of a stream.
func Pipe(name string) (*Conn, *Conn) {
	a2b, b2a := &pipeHalf{}, &pipeHalf{}
	c := &Conn{Name: name + ".c", rd: b2a, wr: a2b, local: Addr(name + "-client"), remote: Addr("server")}
	s := &Conn{Name: name + ".s", rd: a2b, wr: b2a, local: Addr("server"), remote: Addr(name + "-client")}
	c.peer, s.peer = s, c
	return c, s
}

func (c *Conn) Read(b []byte) (int, error) {
	vsched.PointO(c.Name+".Read", c.rd, func() bool { return len(c.rd.buf) > 0 || c.rd.closed || c.Closed || c.expired })
	if c.Closed {
		return 0, net.ErrClosed
	}
	if c.expired {
		return 0, os.ErrDeadlineExceeded
	}
	if len(c.rd.buf) == 0 {
		return 0, io.EOF
	}
	vsched.Acquire(c.rd)
	n := len(b)
	if n > len(c.rd.buf) {
		n = len(c.rd.buf)
	}
	if c.MaxRead > 0 && n > c.MaxRead {
		n = c.MaxRead
	}
	copy(b, c.rd.buf[:n])
	c.rd.buf = c.rd.buf[n:]
	return n, nil
}

func (c *Conn) Write(b []byte) (int, error) {
	vsched.PointO(c.Name+".Write", c.wr, nil)
	if c.Closed {
		return 0, net.ErrClosed
	}
	if c.peer.Closed {
		return 0, io.ErrClosedPipe
	}
	vsched.Release(c.wr)
	c.wr.buf = append(c.wr.buf, b...)
	return len(b), nil
}

func (c *Conn) Close() error {
	vsched.Point(c.Name+".Close", nil)
	c.Closes++
	if c.Closed {
		return net.ErrClosed
	}
	c.Closed = true
	vsched.Release(c.wr)
	c.wr.closed = true
	return nil
}

func (c *Conn) String() string       { return c.Name }
func (c *Conn) LocalAddr() net.Addr  { return c.local }
func (c *Conn) RemoteAddr() net.Addr { return c.remote }
func (c *Conn) SetDeadline(t time.Time) error {
	return c.SetReadDeadline(t)
}
func (c *Conn) SetReadDeadline(t time.Time) error {
	vsched.Point(c.Name+".SetReadDeadline", nil)
	c.expired = expired(t)
	c.pending = !t.IsZero() && !c.expired
	return nil
}
func (c *Conn) SetWriteDeadline(t time.Time) error { return nil }

// Fire expires a pending read deadline.
func (c *Conn) Fire() bool {
	vsched.Point(c.Name+".fire", nil)
	if c.pending {
		c.pending, c.expired = false, true
		return true
	}
	return false
}

// Pending reports whether a future read deadline is armed.
func (c *Conn) Pending() bool { return c.pending }

// Buffered returns the octets written to this end's peer that it has not read yet (for the harness).
func (c *Conn) Unread() int { return len(c.rd.buf) }

// ------------------------------------------------------------------------------------------ listener

type Listener struct {
	Name             string
	queue            []*Conn
	Closed           bool
	Accepted, Closes int
	Conns            []*Conn // server ends handed out by Accept
	OwnCloseError    bool    // Accept on the closed listener returns an error of its own instead of net.ErrClosed
}

func NewListener(name string) *Listener { return &Listener{Name: name} }

// Dial queues a new connection and returns the client end; fails if the listener is closed.
func (l *Listener) Dial(name string) (*Conn, error) {
	vsched.PointO(l.Name+".dial", l, nil)
	if l.Closed {
		return nil, net.ErrClosed
	}
	c, s := Pipe(name)
	vsched.Release(l)
	l.queue = append(l.queue, s)
	return c, nil
}

var errListenerClosed = errors.New("simnet: listener shut down")

func (l *Listener) Accept() (net.Conn, error) {
	vsched.PointO(l.Name+".Accept", l, func() bool { return len(l.queue) > 0 || l.Closed })
	if l.Closed {
		if l.OwnCloseError {
			return nil, errListenerClosed // a wrapper listener's own error: not net.ErrClosed, and wrapping nothing
		}
		return nil, net.ErrClosed
	}
	vsched.Acquire(l)
	s := l.queue[0]
	l.queue = l.queue[1:]
	l.Accepted++
	l.Conns = append(l.Conns, s)
	return s, nil
}

func (l *Listener) Close() error {
	vsched.Point(l.Name+".Close", nil)
	l.Closes++
	if l.Closed {
		return net.ErrClosed
	}
	l.Closed = true
	// connections that were queued but never accepted are reset, as a kernel does
	for _, s := range l.queue {
		s.Closed = true
		vsched.Release(s.wr)
		s.wr.closed = true
	}
	return nil
}
func (l *Listener) Addr() net.Addr { return Addr("server") }

// Queued returns server ends that were queued but never accepted.
func (l *Listener) Queued() []*Conn { return l.queue }
