//go:build verif

// Package vsync replaces package sync for the files put under the controlled scheduler. Every operation
// is a scheduling point; blocking operations are disabled until they can proceed. Injected at build time
// as github.com/miekg/dns/verifshim/vsync.
package vsync

import (
	"fmt"

	"github.com/miekg/dns/verifshim/vsched"
)

type Locker interface {
	Lock()
	Unlock()
}

// RWMutex. Go's writer preference is not modelled (reader admission is a superset of the real behaviour).
type RWMutex struct {
	w bool
	r int
}

func (m *RWMutex) Lock() {
	vsched.Point("Lock", func() bool { return !m.w && m.r == 0 })
	m.w = true
	vsched.Acquire(m)
	vsched.Acquire(rkey{m})
}
func (m *RWMutex) Unlock() {
	vsched.Point("Unlock", nil)
	if !m.w && vsched.Active() {
		panic("vsync: Unlock of unlocked RWMutex")
	}
	vsched.Release(m)
	m.w = false
}
func (m *RWMutex) RLock() {
	vsched.Point("RLock", func() bool { return !m.w })
	m.r++
	vsched.Acquire(m)
}
func (m *RWMutex) RUnlock() {
	vsched.Point("RUnlock", nil)
	if m.r <= 0 && vsched.Active() {
		panic("vsync: RUnlock of unlocked RWMutex")
	}
	vsched.Release(rkey{m}) // readers release to writers only
	m.r--
}

type rkey struct{ m *RWMutex }

func (m *RWMutex) RLocker() Locker { return (*rlocker)(m) }

type rlocker RWMutex

func (r *rlocker) Lock()   { (*RWMutex)(r).RLock() }
func (r *rlocker) Unlock() { (*RWMutex)(r).RUnlock() }

type Mutex struct{ held bool }

func (m *Mutex) Lock() {
	vsched.Point("Lock", func() bool { return !m.held })
	m.held = true
	vsched.Acquire(m)
}
func (m *Mutex) Unlock() {
	vsched.Point("Unlock", nil)
	vsched.Release(m)
	m.held = false
}

type WaitGroup struct{ n int }

func (w *WaitGroup) Add(d int) {
	vsched.Point("wg.Add", nil)
	w.n += d
	if w.n < 0 && vsched.Active() {
		panic("sync: negative WaitGroup counter")
	}
}
func (w *WaitGroup) Done() {
	vsched.Point("wg.Done", nil)
	vsched.Release(w)
	w.n--
	if w.n < 0 && vsched.Active() {
		panic("sync: negative WaitGroup counter")
	}
}
func (w *WaitGroup) Wait() {
	vsched.Point("wg.Wait", func() bool { return w.n <= 0 })
	vsched.Acquire(w)
}

type Once struct{ done bool }

func (o *Once) Do(f func()) {
	vsched.Point("once.Do", nil)
	if !o.done {
		o.done = true
		f()
		vsched.Release(o)
	} else {
		vsched.Acquire(o)
	}
}

// Pool is LIFO and deterministic so that buffers are recycled as early as possible.
type Pool struct {
	New   func() any
	items []any
	Gets, Reuses int
}

func (p *Pool) Get() any {
	vsched.Point("pool.Get", nil)
	p.Gets++
	if n := len(p.items); n > 0 {
		it := p.items[n-1]
		p.items = p.items[:n-1]
		p.Reuses++
		vsched.Acquire(p)
		return it
	}
	if p.New != nil {
		return p.New()
	}
	return nil
}
func (p *Pool) Put(x any) {
	vsched.Point("pool.Put", nil)
	vsched.Release(p)
	p.items = append(p.items, x)
}

// Cond exists so that references compile; waiting on it is not supported under the scheduler.
type Cond struct{ L Locker }

func NewCond(l Locker) *Cond { return &Cond{L: l} }
func (c *Cond) Broadcast()   { vsched.Point("cond.Broadcast", nil) }
func (c *Cond) Signal()      { vsched.Point("cond.Signal", nil) }
func (c *Cond) Wait()        { panic(fmt.Sprint("vsync: Cond.Wait is not supported under the controlled scheduler")) }
