//go:build verif

// Package vsync replaces package sync for the files put under the controlled scheduler. Every operation
// is a scheduling point; blocking operations are disabled until they can proceed. Injected at build time
// as github.com/miekg/dns/verifshim/vsync.
package vsync

import (
	"github.com/miekg/dns/verifshim/vsched"
)

type Locker interface {
	Lock()
	Unlock()
}

// RWMutex. Go's writer preference is not modelled (reader admission is a superset of the real behaviour).
type RWMutex struct {
	w bool
	r int
}

func (m *RWMutex) Lock() {
	vsched.PointO("Lock", m, func() bool { return !m.w && m.r == 0 })
	m.w = true
	vsched.Acquire(m)
	vsched.Acquire(rkey{m})
}
func (m *RWMutex) Unlock() {
	vsched.PointO("Unlock", m, nil)
	if !m.w && vsched.Active() {
		panic("vsync: Unlock of unlocked RWMutex")
	}
	vsched.Release(m)
	m.w = false
}
func (m *RWMutex) RLock() {
	vsched.PointO("RLock", m, func() bool { return !m.w })
	m.r++
	vsched.Acquire(m)
}
func (m *RWMutex) RUnlock() {
	vsched.PointO("RUnlock", m, nil)
	if m.r <= 0 && vsched.Active() {
		panic("vsync: RUnlock of unlocked RWMutex")
	}
	vsched.Release(rkey{m}) // readers release to writers only
	m.r--
}

type rkey struct{ m *RWMutex }

func (m *RWMutex) RLocker() Locker { return (*rlocker)(m) }

type rlocker RWMutex

func (r *rlocker) Lock()   { (*RWMutex)(r).RLock() }
func (r *rlocker) Unlock() { (*RWMutex)(r).RUnlock() }

type Mutex struct{ held bool }

func (m *Mutex) Lock() {
	vsched.PointO("Lock", m, func() bool { return !m.held })
	m.held = true
	vsched.Acquire(m)
}
func (m *Mutex) Unlock() {
	vsched.PointO("Unlock", m, nil)
	vsched.Release(m)
	m.held = false
}

type WaitGroup struct{ n int }

func (w *WaitGroup) Add(d int) {
	vsched.PointO("wg.Add", w, nil)
	w.n += d
	if w.n < 0 && vsched.Active() {
		panic("sync: negative WaitGroup counter")
	}
}
func (w *WaitGroup) Done() {
	vsched.PointO("wg.Done", w, nil)
	vsched.Release(w)
	w.n--
	if w.n < 0 && vsched.Active() {
		panic("sync: negative WaitGroup counter")
	}
}
func (w *WaitGroup) Wait() {
	vsched.PointO("wg.Wait", w, func() bool { return w.n <= 0 })
	vsched.Acquire(w)
}

type Once struct{ done, running bool }

// Do: like sync.Once, a second caller does not return before the first call of f has returned.
func (o *Once) Do(f func()) {
	vsched.Point("once.Do", func() bool { return !o.running })
	if !o.done {
		o.done, o.running = true, true
		defer func() {
			o.running = false
			vsched.Release(o)
		}()
		f()
	} else {
		vsched.Acquire(o)
	}
}

// OnceFunc, OnceValue, OnceValues as in package sync (panics are not re-raised on later calls).
func OnceFunc(f func()) func() {
	var o Once
	return func() { o.Do(f) }
}
func OnceValue[T any](f func() T) func() T {
	var o Once
	var v T
	return func() T { o.Do(func() { v = f() }); return v }
}
func OnceValues[T1, T2 any](f func() (T1, T2)) func() (T1, T2) {
	var o Once
	var v1 T1
	var v2 T2
	return func() (T1, T2) { o.Do(func() { v1, v2 = f() }); return v1, v2 }
}

// Pool is LIFO and deterministic so that buffers are recycled as early as possible.
type Pool struct {
	New          func() any
	items        []any
	Gets, Reuses int
}

func (p *Pool) Get() any {
	vsched.PointO("pool.Get", p, nil)
	p.Gets++
	if n := len(p.items); n > 0 {
		it := p.items[n-1]
		p.items = p.items[:n-1]
		p.Reuses++
		vsched.Acquire(p)
		return it
	}
	if p.New != nil {
		return p.New()
	}
	return nil
}
func (p *Pool) Put(x any) {
	vsched.PointO("pool.Put", p, nil)
	vsched.Release(p)
	p.items = append(p.items, x)
}

// Cond: Wait releases L, blocks until a later Signal/Broadcast, and re-acquires L. Signal wakes the longest
// waiter (sync.Cond does not promise which; callers must re-check their condition anyway).
type Cond struct {
	L       Locker
	waiters []*condWaiter
}
type condWaiter struct{ woken bool }

func NewCond(l Locker) *Cond { return &Cond{L: l} }
func (c *Cond) Broadcast() {
	vsched.Point("cond.Broadcast", nil)
	vsched.Release(c)
	for _, w := range c.waiters {
		w.woken = true
	}
	c.waiters = nil
}
func (c *Cond) Signal() {
	vsched.Point("cond.Signal", nil)
	vsched.Release(c)
	if len(c.waiters) > 0 {
		c.waiters[0].woken = true
		c.waiters = c.waiters[1:]
	}
}
func (c *Cond) Wait() {
	w := &condWaiter{}
	c.waiters = append(c.waiters, w)
	c.L.Unlock()
	vsched.Point("cond.Wait", func() bool { return w.woken })
	vsched.Acquire(c)
	c.L.Lock()
}

// TryLock variants.
func (m *Mutex) TryLock() bool {
	vsched.PointO("TryLock", m, nil)
	if m.held {
		return false
	}
	m.held = true
	vsched.Acquire(m)
	return true
}
func (m *RWMutex) TryLock() bool {
	vsched.PointO("TryLock", m, nil)
	if m.w || m.r > 0 {
		return false
	}
	m.w = true
	vsched.Acquire(m)
	vsched.Acquire(rkey{m})
	return true
}
func (m *RWMutex) TryRLock() bool {
	vsched.PointO("TryRLock", m, nil)
	if m.w {
		return false
	}
	m.r++
	vsched.Acquire(m)
	return true
}

// Go (Go 1.25): f runs in a new scheduler thread, counted by the group.
func (w *WaitGroup) Go(f func()) {
	w.Add(1)
	vsched.Go(func() {
		defer w.Done()
		f()
	})
}

// Map: every operation is one scheduling point and atomic, as in sync.Map; Range works on a snapshot in
// insertion order (sync.Map promises no order; a deterministic one keeps schedules replayable).
type Map struct {
	keys []any
	m    map[any]any
}

func (m *Map) pt(op string) {
	vsched.PointO("map."+op, m, nil)
	vsched.Acquire(m)
	vsched.Release(m)
	if m.m == nil {
		m.m = map[any]any{}
	}
}
func (m *Map) drop(k any) {
	delete(m.m, k)
	for i, x := range m.keys {
		if x == k {
			m.keys = append(m.keys[:i:i], m.keys[i+1:]...)
			break
		}
	}
}
func (m *Map) Load(k any) (any, bool) { m.pt("Load"); v, ok := m.m[k]; return v, ok }
func (m *Map) Store(k, v any) {
	m.pt("Store")
	if _, ok := m.m[k]; !ok {
		m.keys = append(m.keys, k)
	}
	m.m[k] = v
}
func (m *Map) LoadOrStore(k, v any) (any, bool) {
	m.pt("LoadOrStore")
	if old, ok := m.m[k]; ok {
		return old, true
	}
	m.keys = append(m.keys, k)
	m.m[k] = v
	return v, false
}
func (m *Map) LoadAndDelete(k any) (any, bool) {
	m.pt("LoadAndDelete")
	v, ok := m.m[k]
	if ok {
		m.drop(k)
	}
	return v, ok
}
func (m *Map) Delete(k any) { m.LoadAndDelete(k) }
func (m *Map) Swap(k, v any) (any, bool) {
	m.pt("Swap")
	old, ok := m.m[k]
	if !ok {
		m.keys = append(m.keys, k)
	}
	m.m[k] = v
	return old, ok
}
func (m *Map) CompareAndSwap(k, old, nw any) bool {
	m.pt("CompareAndSwap")
	if cur, ok := m.m[k]; ok && cur == old {
		m.m[k] = nw
		return true
	}
	return false
}
func (m *Map) CompareAndDelete(k, old any) bool {
	m.pt("CompareAndDelete")
	if cur, ok := m.m[k]; ok && cur == old {
		m.drop(k)
		return true
	}
	return false
}
func (m *Map) Range(f func(k, v any) bool) {
	m.pt("Range")
	keys := append([]any(nil), m.keys...)
	for _, k := range keys {
		v, ok := m.m[k]
		if !ok {
			continue
		}
		if !f(k, v) {
			return
		}
	}
}
func (m *Map) Clear() { m.pt("Clear"); m.keys, m.m = nil, map[any]any{} }
