// Package fw is the plumbing shared by every check: process-sharded, deterministic, bounded-exhaustive
// enumeration of cases; violation keys, known findings, replay files and evidence.
//
// A check is a list of *spaces*. A space enumerates its cases in a fixed order by calling emit once
// per case; cases are numbered in emission order. The parent process starts N worker processes; worker k
// executes the cases whose number is ≡ k (mod N), one at a time on a single goroutine (so allocation
// measurements and watchdogs are per case). Nothing is sampled: every emitted case is executed by
// exactly one worker unless a stated deadline is hit, in which case the evidence says exhaustive:false.
package fw

import (
	"encoding/json"
	"flag"
	"fmt"
	"os"
	"os/exec"
	"path/filepath"
	"runtime"
	"runtime/debug"
	"runtime/metrics"
	"runtime/pprof"
	"sort"
	"strconv"
	"strings"
	"sync"
	"sync/atomic"
	"time"
)

// ---------------------------------------------------------------------------------------------
// public types

type Check struct {
	Prop   string
	Level  string // exploration | fault_enumeration | model_checking
	Assume []string
	Spaces func(c *Ctx) // registers spaces via c.Space
}

type Ctx struct {
	Prop, Tier string
	Seed       int64
	Thorough   bool

	shard, nshards int
	replaySub      string
	replayNo       int64
	careful        bool
	deadline       time.Time
	onlySub        string

	cur      atomic.Int64 // current case number (for the watchdog)
	curSub   atomic.Value // string
	curStart atomic.Int64 // unix nano

	subs []*SubStat
	viol []Violation
	out  *WorkerOut
}

type SubStat struct {
	Name        string `json:"name"`
	Exhaustive  bool   `json:"exhaustive"`
	Evaluations int64  `json:"evaluations"`
	Nontrivial  int64  `json:"distinct_nontrivial"`
	Emitted     int64  `json:"emitted"`
	Rule        string `json:"rule,omitempty"`
	Samples     []any  `json:"samples,omitempty"`
	Extra       map[string]int64 `json:"extra,omitempty"`
	Cut         bool   `json:"cut_by_deadline,omitempty"`
}

type Violation struct {
	Key    string `json:"key"`
	Sub    string `json:"sub"`
	CaseNo int64  `json:"case_no"`
	Detail string `json:"detail"`
}

type WorkerOut struct {
	Subs  []*SubStat  `json:"subs"`
	Viol  []Violation `json:"violations"`
	Fatal string      `json:"fatal,omitempty"`
}

// R is handed to each case.
type R struct {
	c   *Ctx
	s   *SubStat
	No  int64
	nt  bool
}

// Fail records a violation of the property in this case. key is a stable class name for the failure
// (used for known findings); detail must contain the failing input.
func (r *R) Fail(key, format string, args ...any) {
	c := r.c
	// keep at most 5 per key per worker
	n := 0
	for _, v := range c.viol {
		if v.Key == key {
			n++
		}
	}
	if n >= 5 {
		return
	}
	d := fmt.Sprintf(format, args...)
	if len(d) > 4000 {
		d = d[:4000] + "…"
	}
	c.viol = append(c.viol, Violation{Key: key, Sub: r.s.Name, CaseNo: r.No, Detail: d})
}

// Nontrivial marks this case as non-trivial by the space's stated rule (counted once per case).
func (r *R) Nontrivial() {
	if !r.nt {
		r.nt = true
		r.s.Nontrivial++
	}
}

// Evals adds n further evaluations to the space (a case that runs many executions / sub-cases of equal standing).
func (r *R) Evals(n int64) { r.s.Evaluations += n }

// NontrivialN adds n non-trivial evaluations.
func (r *R) NontrivialN(n int64) { r.s.Nontrivial += n }

// Alive tells the per-case watchdog that the case is making progress (for cases that run many executions).
func (r *R) Alive() { r.c.curStart.Store(time.Now().UnixNano()) }

// NotExhaustive records that this case hit a cap, so the space was not enumerated completely.
func (r *R) NotExhaustive() { r.s.Exhaustive = false }

// Count adds to a named extra counter of the space.
func (r *R) Count(name string, d int64) {
	if r.s.Extra == nil {
		r.s.Extra = map[string]int64{}
	}
	r.s.Extra[name] += d
}

// Sample offers a written-out case for the evidence file; only the first few are kept.
func (r *R) Sample(f func() any) {
	if r.c.shard == 0 && len(r.s.Samples) < 3 {
		r.s.Samples = append(r.s.Samples, f())
	}
}

// Thorough reports whether the thorough tier runs.
func (r *R) Thorough() bool { return r.c.Thorough }

// Space enumerates one sub-space. exhaustive states that the enumeration is the complete finite space
// named by rule. gen must be deterministic.
func (c *Ctx) Space(name, rule string, exhaustive bool, gen func(emit func(func(r *R)))) {
	if c.replaySub != "" && c.replaySub != name {
		return
	}
	if c.onlySub != "" && !strings.HasPrefix(name, c.onlySub) {
		return
	}
	s := &SubStat{Name: name, Rule: rule, Exhaustive: exhaustive}
	c.subs = append(c.subs, s)
	c.curSub.Store(name)
	var no int64
	emit := func(f func(r *R)) {
		n := no
		no++
		if c.replaySub != "" {
			if n != c.replayNo {
				return
			}
		} else if int(n%int64(c.nshards)) != c.shard {
			return
		}
		if s.Cut {
			return
		}
		if n&0x3ff == 0 && !c.deadline.IsZero() && time.Now().After(c.deadline) {
			s.Cut = true
			s.Exhaustive = false
			return
		}
		c.cur.Store(n)
		c.curStart.Store(time.Now().UnixNano())
		if c.careful {
			fmt.Fprintf(os.Stderr, "CASE %s %d\n", name, n)
		}
		r := &R{c: c, s: s, No: n}
		s.Evaluations++
		func() {
			defer func() {
				if p := recover(); p != nil {
					r.Fail("panic/"+name, "panic in case %d: %v\n%s", n, p, trimStack(debug.Stack()))
				}
			}()
			f(r)
		}()
		c.curStart.Store(0)
	}
	gen(emit)
	s.Emitted = no
}

// Mine reports whether the case that the *next* emit would number belongs to this worker — spaces can
// not know the number, so instead they may ask the context whether heavy preparation is worthwhile by
// keeping their own counter. Provided for convenience.
func (c *Ctx) Shard() (int, int) { return c.shard, c.nshards }

func trimStack(b []byte) string {
	s := string(b)
	if len(s) > 2500 {
		s = s[:2500]
	}
	return s
}

// AllocBytes returns the cumulative heap allocation counter (cheap, slightly lagging for small objects).
func AllocBytes() uint64 {
	var s [1]metrics.Sample
	s[0].Name = "/gc/heap/allocs:bytes"
	metrics.Read(s[:])
	return s[0].Value.Uint64()
}

// ExactAlloc runs f and returns the exact number of heap bytes it allocated (stop-the-world; slow).
func ExactAlloc(f func()) uint64 {
	var a, b runtime.MemStats
	runtime.ReadMemStats(&a)
	f()
	runtime.ReadMemStats(&b)
	return b.TotalAlloc - a.TotalAlloc
}

// ---------------------------------------------------------------------------------------------
// driver

var checks = map[string]*Check{}
var appendTo bool

func Register(c *Check) { checks[c.Prop] = c }

const (
	watchdogCase = 60 * time.Second
	memCap       = 6 << 30
)

func Main() {
	var (
		prop    = flag.String("prop", "", "property id")
		tier    = flag.String("tier", "quick", "quick|thorough")
		worker  = flag.String("worker", "", "internal: k/N")
		outf    = flag.String("out", "", "internal: worker result file")
		replay  = flag.String("replay", "", "replay file or sub:case")
		careful = flag.Bool("careful", false, "internal: print every case before running it")
		nproc   = flag.Int("j", 0, "worker processes (default: cores)")
		budget  = flag.Duration("budget", 0, "internal deadline for enumeration (0 = tier default)")
		only    = flag.String("sub", "", "run only spaces whose name has this prefix")
		root    = flag.String("root", envOr("VERIF_ROOT", "/verif"), "verif root")
		app     = flag.Bool("append", false, "merge into the evidence file written by another engine's part of the same property")
	)
	flag.Parse()
	ck := checks[*prop]
	if ck == nil {
		fmt.Fprintf(os.Stderr, "unknown property %q; have %v\n", *prop, propNames())
		os.Exit(2)
	}
	seed, _ := strconv.ParseInt(os.Getenv("VERIF_SEED"), 10, 64)
	if *worker != "" || *replay != "" {
		runWorker(ck, *tier, seed, *worker, *outf, *replay, *careful, *budget, *only)
		return
	}
	appendTo = *app
	os.Exit(runParent(ck, *tier, seed, *nproc, *budget, *only, *root))
}

func envOr(k, d string) string {
	if v := os.Getenv(k); v != "" {
		return v
	}
	return d
}

func propNames() []string {
	var n []string
	for k := range checks {
		n = append(n, k)
	}
	sort.Strings(n)
	return n
}

type replayFile struct {
	Property string `json:"property"`
	Tier     string `json:"tier"`
	Sub      string `json:"sub"`
	CaseNo   int64  `json:"case_no"`
	Key      string `json:"key"`
	Detail   string `json:"detail"`
	Cmd      string `json:"replay_cmd"`
}

func runWorker(ck *Check, tier string, seed int64, worker, outf, replay string, careful bool, budget time.Duration, only string) {
	c := &Ctx{Prop: ck.Prop, Tier: tier, Seed: seed, Thorough: tier == "thorough", nshards: 1, careful: careful, onlySub: only}
	if worker != "" {
		fmt.Sscanf(worker, "%d/%d", &c.shard, &c.nshards)
	}
	if replay != "" {
		if b, err := os.ReadFile(replay); err == nil {
			var rf replayFile
			if err := json.Unmarshal(b, &rf); err != nil {
				fmt.Fprintln(os.Stderr, "bad replay file:", err)
				os.Exit(2)
			}
			c.replaySub, c.replayNo = rf.Sub, rf.CaseNo
			c.Tier, c.Thorough = rf.Tier, rf.Tier == "thorough"
		} else {
			i := strings.LastIndex(replay, ":")
			c.replaySub = replay[:i]
			c.replayNo, _ = strconv.ParseInt(replay[i+1:], 10, 64)
		}
	}
	if budget > 0 {
		c.deadline = time.Now().Add(budget)
	}
	c.curSub.Store("")
	// watchdog: per-case time and process memory
	go func() {
		for {
			time.Sleep(200 * time.Millisecond)
			st := c.curStart.Load()
			if st != 0 && time.Since(time.Unix(0, st)) > watchdogCase {
				fatalOut(c, outf, fmt.Sprintf("HANG sub=%s case=%d (> %v in one case)", c.curSub.Load(), c.cur.Load(), watchdogCase))
			}
			var s [1]metrics.Sample
			s[0].Name = "/memory/classes/heap/objects:bytes"
			metrics.Read(s[:])
			if s[0].Value.Uint64() > memCap {
				fatalOut(c, outf, fmt.Sprintf("MEMORY sub=%s case=%d (live heap > %d bytes)", c.curSub.Load(), c.cur.Load(), uint64(memCap)))
			}
		}
	}()
	if pf := os.Getenv("VERIF_CPUPROFILE"); pf != "" && c.shard == 0 {
		if f, err := os.Create(pf); err == nil {
			pprof.StartCPUProfile(f)
			defer pprof.StopCPUProfile()
		}
	}
	ck.Spaces(c)
	pprof.StopCPUProfile()
	out := &WorkerOut{Subs: c.subs, Viol: c.viol}
	if replay != "" {
		ran := int64(0)
		for _, s := range c.subs {
			ran += s.Evaluations
		}
		if ran == 0 {
			fmt.Printf("REPLAY-ERROR no such case %s:%d\n", c.replaySub, c.replayNo)
			os.Exit(2)
		}
		for _, v := range c.viol {
			fmt.Printf("REPLAY-VIOLATION property=%s key=%s sub=%s case=%d\n%s\n", ck.Prop, v.Key, v.Sub, v.CaseNo, v.Detail)
		}
		if len(c.viol) > 0 {
			os.Exit(1)
		}
		fmt.Printf("REPLAY-OK property=%s sub=%s case=%d\n", ck.Prop, c.replaySub, c.replayNo)
		return
	}
	writeJSON(outf, out)
}

var fatalOnce sync.Once

func fatalOut(c *Ctx, outf, msg string) {
	fatalOnce.Do(func() {
		// best effort: stats gathered so far are not consistent; report the fatal only.
		out := &WorkerOut{Fatal: msg, Viol: []Violation{{Key: "fatal/" + strings.Fields(msg)[0], Sub: fmt.Sprint(c.curSub.Load()), CaseNo: c.cur.Load(), Detail: msg}}}
		if outf != "" {
			writeJSON(outf, out)
		} else {
			fmt.Println("REPLAY-VIOLATION", msg)
		}
		os.Exit(3)
	})
}

func writeJSON(path string, v any) {
	b, err := json.MarshalIndent(v, "", " ")
	if err != nil {
		fmt.Fprintln(os.Stderr, "marshal:", err)
		os.Exit(2)
	}
	if path == "" {
		os.Stdout.Write(b)
		return
	}
	tmp := path + ".tmp"
	if err := os.WriteFile(tmp, b, 0o644); err != nil {
		fmt.Fprintln(os.Stderr, "write:", err)
		os.Exit(2)
	}
	os.Rename(tmp, path)
}

func runParent(ck *Check, tier string, seed int64, nproc int, budget time.Duration, only, root string) int {
	t0 := time.Now()
	if nproc <= 0 {
		nproc = runtime.NumCPU()
	}
	if budget == 0 {
		budget = 8 * time.Minute
		if tier == "thorough" {
			budget = 40 * time.Minute
		}
	}
	self, _ := os.Executable()
	tmpd, err := os.MkdirTemp("", "vcheck-"+ck.Prop+"-")
	if err != nil {
		fmt.Fprintln(os.Stderr, err)
		return 2
	}
	defer os.RemoveAll(tmpd)
	outs := make([]*WorkerOut, nproc)
	var wg sync.WaitGroup
	for k := 0; k < nproc; k++ {
		wg.Add(1)
		go func(k int) {
			defer wg.Done()
			outs[k] = spawnWorker(self, ck.Prop, tier, k, nproc, tmpd, budget, only, false)
			if outs[k].Fatal != "" && strings.HasPrefix(outs[k].Fatal, "CRASH") {
				// unrecoverable runtime error without a case number: re-run this shard printing each case.
				o2 := spawnWorker(self, ck.Prop, tier, k, nproc, tmpd, budget, only, true)
				if o2.Fatal == "" {
					fmt.Fprintf(os.Stderr, "note: worker %d crashed once and completed on re-run: %s\n", k, outs[k].Fatal)
				}
				outs[k] = o2
			}
		}(k)
	}
	wg.Wait()

	var merged map[string]*SubStat
	var order []string
	var viol []Violation
	internal := ""
	for _, o := range outs {
		if o.Fatal != "" && strings.HasPrefix(o.Fatal, "INTERNAL") {
			internal = o.Fatal
		}
	}
	if internal != "" {
		fmt.Fprintln(os.Stderr, "internal error:", internal)
		return 2
	}
	// fatal events (hang / crash / memory) end a worker early: they must reproduce before they are believed,
	// and either way the rest of that worker's shard has to be accounted for.
	var confirmed []Violation
	lostShards := 0
	// the replays of the fatal cases of different workers are independent: run them side by side (a change that
	// makes many cases slow ends every worker with a fatal event, and each replay may take minutes)
	fatalOf := make([]*Violation, len(outs))
	repro := make([]bool, len(outs))
	var cwg sync.WaitGroup
	for k, o := range outs {
		if o.Fatal == "" {
			continue
		}
		for i := range o.Viol {
			if strings.HasPrefix(o.Viol[i].Key, "fatal/") {
				fatalOf[k] = &o.Viol[i]
			}
		}
		if fatalOf[k] == nil {
			continue
		}
		repro[k] = true
		cwg.Add(1)
		go func(k int, fv *Violation) {
			defer cwg.Done()
			for i := 0; i < 2 && repro[k]; i++ {
				cmd := exec.Command(self, "-prop", ck.Prop, "-tier", tier, "-replay", fmt.Sprintf("%s:%d", fv.Sub, fv.CaseNo))
				cmd.Env = os.Environ()
				if cmd.Run() == nil {
					repro[k] = false
				}
			}
		}(k, fatalOf[k])
	}
	cwg.Wait()
	for k, o := range outs {
		if o.Fatal == "" {
			continue
		}
		fv := fatalOf[k]
		reproduced := repro[k]
		if reproduced {
			confirmed = append(confirmed, *fv)
			lostShards++ // the cases of this shard behind the fatal one were not run
			continue
		}
		fmt.Fprintf(os.Stderr, "note: worker %d ended with a fatal event that did not reproduce (%s); re-running its shard\n", k, o.Fatal)
		ok := false
		for attempt := 0; attempt < 2 && !ok; attempt++ {
			o2 := spawnWorker(self, ck.Prop, tier, k, nproc, tmpd, budget, only, false)
			if o2.Fatal == "" {
				outs[k] = o2
				ok = true
			}
		}
		if !ok {
			fmt.Fprintf(os.Stderr, "internal error: worker %d keeps dying without a reproducible case: %s\n", k, o.Fatal)
			return 2
		}
	}
	// merge (after shards have been re-run)
	merged = map[string]*SubStat{}
	order = nil
	viol = nil
	for _, o := range outs {
		if o.Fatal != "" {
			continue
		}
		for _, s := range o.Subs {
			m := merged[s.Name]
			if m == nil {
				cp := *s
				cp.Samples = append([]any(nil), s.Samples...)
				merged[s.Name] = &cp
				order = append(order, s.Name)
				continue
			}
			m.Evaluations += s.Evaluations
			m.Nontrivial += s.Nontrivial
			m.Exhaustive = m.Exhaustive && s.Exhaustive
			m.Cut = m.Cut || s.Cut
			if s.Emitted > m.Emitted {
				m.Emitted = s.Emitted
			}
			for k, v := range s.Extra {
				if m.Extra == nil {
					m.Extra = map[string]int64{}
				}
				m.Extra[k] += v
			}
			if len(m.Samples) < 3 {
				m.Samples = append(m.Samples, s.Samples...)
			}
		}
		viol = append(viol, o.Viol...)
	}
	viol = append(viol, confirmed...)
	if lostShards > 0 {
		for _, m := range merged {
			m.Exhaustive = false
		}
	}
	if len(merged) == 0 && lostShards == 0 {
		fmt.Fprintln(os.Stderr, "internal error: no space was run")
		return 2
	}
	sort.SliceStable(viol, func(i, j int) bool {
		if viol[i].Key != viol[j].Key {
			return viol[i].Key < viol[j].Key
		}
		if viol[i].Sub != viol[j].Sub {
			return viol[i].Sub < viol[j].Sub
		}
		return viol[i].CaseNo < viol[j].CaseNo
	})

	known := loadKnown(filepath.Join(root, "known_findings.txt"), ck.Prop)
	exit := 0
	seenKey := map[string]bool{}
	nviol, nknown := 0, 0
	os.MkdirAll(filepath.Join(root, "replays"), 0o755)
	for _, v := range viol {
		if seenKey[v.Key] {
			continue
		}
		seenKey[v.Key] = true
		if desc, ok := known[v.Key]; ok {
			nknown++
			fmt.Printf("KNOWN-FINDING: property=%s key=%s %s\n", ck.Prop, v.Key, desc)
			continue
		}
		nviol++
		exit = 1
		if nviol > 10 {
			if os.Getenv("VERIF_ALLKEYS") != "" {
				fmt.Printf("  more: key=%s sub=%s case=%d :: %s\n", v.Key, v.Sub, v.CaseNo, strings.SplitN(v.Detail, "\n", 2)[0])
			}
			continue
		}
		name := fmt.Sprintf("%s-%s-%d.json", ck.Prop, sanitize(v.Sub), v.CaseNo)
		p := filepath.Join(root, "replays", name)
		writeJSON(p, &replayFile{Property: ck.Prop, Tier: tier, Sub: v.Sub, CaseNo: v.CaseNo, Key: v.Key, Detail: v.Detail,
			Cmd: fmt.Sprintf("%s/run.sh %s --replay %s", root, ck.Prop, p)})
		fmt.Printf("VIOLATION property=%s replay=%s\n", ck.Prop, p)
		fmt.Printf("  key=%s sub=%s case=%d\n  %s\n", v.Key, v.Sub, v.CaseNo, strings.ReplaceAll(v.Detail, "\n", "\n  "))
	}

	// evidence
	var evals, nt int64
	exh := true
	var subs []*SubStat
	var samples []any
	for _, n := range order {
		s := merged[n]
		evals += s.Evaluations
		nt += s.Nontrivial
		exh = exh && s.Exhaustive
		subs = append(subs, s)
		for _, x := range s.Samples {
			if len(samples) < 12 {
				samples = append(samples, map[string]any{"space": n, "case": x})
			}
		}
		if len(s.Samples) > 3 {
			s.Samples = s.Samples[:3]
		}
	}
	if len(samples) == 0 {
		samples = append(samples, "no samples recorded")
	}
	var rules []string
	for _, s := range subs {
		rules = append(rules, s.Name+": "+s.Rule)
	}
	cov := map[string]any{}
	if ck.Level == "model_checking" || appendTo {
		var st, tr, ex int64
		for _, sub := range subs {
			st += sub.Extra["states"]
			tr += sub.Extra["transitions"]
			ex += sub.Extra["executions"]
		}
		if st > 0 {
			cov["states"], cov["transitions"], cov["traces_validated_against_impl"] = st, tr, ex
			cov["states_note"] = "distinct scheduler-state hashes (thread operations, enabledness, observation log), counted per explored subtree and summed"
		}
	}
	ev := map[string]any{
		"property_id": ck.Prop,
		"tier":        tier,
		"seed":        seed,
		"level":       ck.Level,
		"coverage": mergeCov(cov, map[string]any{
			"evaluations":                   evals,
			"distinct_nontrivial":           nt,
			"rule":                          "cases are enumerated without repetition (products / bounded-deviation vectors over fixed alphabets), so every counted case is distinct; non-trivial per space: " + strings.Join(rules, " | "),
			"samples":                       samples,
			"exhaustive":                    exh,
			"traces_validated_against_impl": evals,
			"spaces":                        subs,
			"worker_processes":              nproc,
			"known_findings_reported":       nknown,
			"shards_cut_by_fatal_case":      lostShards,
		}),
		"assumptions": ck.Assume,
		"wall_s":      time.Since(t0).Seconds(),
		"violations":  nviol,
	}
	if appendTo {
		appendEvidence(filepath.Join(root, "evidence", ck.Prop+".json"), ev)
	}
	writeJSON(filepath.Join(root, "evidence", ck.Prop+".json"), ev)
	fmt.Printf("%s %s: %d cases in %d spaces, %d non-trivial, exhaustive=%v, violations=%d, known=%d, %.1fs\n",
		ck.Prop, tier, evals, len(subs), nt, exh, nviol, nknown, time.Since(t0).Seconds())
	return exit
}

func mergeCov(over, base map[string]any) map[string]any {
	for k, v := range over {
		base[k] = v
	}
	return base
}

// appendEvidence merges the evidence of an earlier run of the same property (another engine's part) into ev.
func appendEvidence(path string, ev map[string]any) {
	b, err := os.ReadFile(path)
	if err != nil {
		return
	}
	var old map[string]any
	if json.Unmarshal(b, &old) != nil || old["property_id"] != ev["property_id"] {
		return
	}
	oc, _ := old["coverage"].(map[string]any)
	nc := ev["coverage"].(map[string]any)
	num := func(m map[string]any, k string) float64 { f, _ := m[k].(float64); return f }
	nc["evaluations"] = int64(num(oc, "evaluations")) + nc["evaluations"].(int64)
	nc["distinct_nontrivial"] = int64(num(oc, "distinct_nontrivial")) + nc["distinct_nontrivial"].(int64)
	if v, ok := nc["traces_validated_against_impl"].(int64); ok {
		nc["traces_validated_against_impl"] = v + int64(num(oc, "evaluations"))
	}
	nc["exhaustive"] = nc["exhaustive"].(bool) && oc["exhaustive"] == true
	nc["rule"] = fmt.Sprint(oc["rule"]) + " || " + fmt.Sprint(nc["rule"])
	if os, ok := oc["spaces"].([]any); ok {
		var all []any
		all = append(all, os...)
		for _, s := range nc["spaces"].([]*SubStat) {
			all = append(all, s)
		}
		nc["spaces"] = all
	}
	if os, ok := oc["samples"].([]any); ok {
		nc["samples"] = append(os, nc["samples"].([]any)...)
	}
	if oa, ok := old["assumptions"].([]any); ok {
		var as []any
		as = append(as, oa...)
		for _, a := range ev["assumptions"].([]string) {
			as = append(as, a)
		}
		ev["assumptions"] = as
	}
	ev["wall_s"] = num(old, "wall_s") + ev["wall_s"].(float64)
	ev["violations"] = int(num(old, "violations")) + ev["violations"].(int)
	nc["known_findings_reported"] = int(num(oc, "known_findings_reported")) + nc["known_findings_reported"].(int)
}

func sanitize(s string) string {
	return strings.Map(func(r rune) rune {
		if r >= 'a' && r <= 'z' || r >= 'A' && r <= 'Z' || r >= '0' && r <= '9' || r == '-' || r == '_' {
			return r
		}
		return '_'
	}, s)
}

func spawnWorker(self, prop, tier string, k, n int, tmpd string, budget time.Duration, only string, careful bool) *WorkerOut {
	outf := filepath.Join(tmpd, fmt.Sprintf("w%d.json", k))
	os.Remove(outf)
	args := []string{"-prop", prop, "-tier", tier, "-worker", fmt.Sprintf("%d/%d", k, n), "-out", outf, "-budget", budget.String()}
	if only != "" {
		args = append(args, "-sub", only)
	}
	if careful {
		args = append(args, "-careful")
	}
	cmd := exec.Command(self, args...)
	cmd.Env = append(os.Environ(), "GOMAXPROCS="+envOr("VERIF_GOMAXPROCS", "2"), "GOMEMLIMIT=4GiB")
	var errb tailBuf
	cmd.Stderr = &errb
	cmd.Stdout = os.Stderr
	err := cmd.Run()
	b, rerr := os.ReadFile(outf)
	if rerr == nil {
		var o WorkerOut
		if json.Unmarshal(b, &o) == nil {
			return &o
		}
	}
	// died without a result file
	tail := errb.String()
	if careful {
		// find last CASE line
		sub, no := "", int64(-1)
		for _, ln := range strings.Split(tail, "\n") {
			if strings.HasPrefix(ln, "CASE ") {
				f := strings.Fields(ln)
				if len(f) == 3 {
					sub = f[1]
					no, _ = strconv.ParseInt(f[2], 10, 64)
				}
			}
		}
		if no >= 0 {
			msg := fmt.Sprintf("CRASH sub=%s case=%d: worker died (%v): %s", sub, no, err, lastLines(tail, 12))
			return &WorkerOut{Fatal: msg, Viol: []Violation{{Key: "fatal/CRASH", Sub: sub, CaseNo: no, Detail: msg}}}
		}
		return &WorkerOut{Fatal: "INTERNAL worker died without case: " + lastLines(tail, 12)}
	}
	return &WorkerOut{Fatal: fmt.Sprintf("CRASH worker %d died (%v): %s", k, err, lastLines(tail, 12))}
}

type tailBuf struct {
	mu sync.Mutex
	b  []byte
}

func (t *tailBuf) Write(p []byte) (int, error) {
	t.mu.Lock()
	defer t.mu.Unlock()
	t.b = append(t.b, p...)
	if len(t.b) > 1<<16 {
		t.b = t.b[len(t.b)-1<<15:]
	}
	return len(p), nil
}
func (t *tailBuf) String() string { t.mu.Lock(); defer t.mu.Unlock(); return string(t.b) }

func lastLines(s string, n int) string {
	l := strings.Split(strings.TrimSpace(s), "\n")
	if len(l) > n {
		// keep the head of the panic message and the tail
		l = append(l[:n/2:n/2], l[len(l)-n/2:]...)
	}
	return strings.Join(l, " / ")
}

// known findings file: lines
//   finding: property=Cnn key=<key> <description>
//   fixed: property=Cnn <commit> <what failed>     (suppresses nothing)
func loadKnown(path, prop string) map[string]string {
	m := map[string]string{}
	b, err := os.ReadFile(path)
	if err != nil {
		return m
	}
	for _, ln := range strings.Split(string(b), "\n") {
		ln = strings.TrimSpace(ln)
		if !strings.HasPrefix(ln, "finding:") {
			continue
		}
		f := strings.Fields(ln)
		if len(f) < 3 || f[1] != "property="+prop || !strings.HasPrefix(f[2], "key=") {
			continue
		}
		m[strings.TrimPrefix(f[2], "key=")] = strings.Join(f[3:], " ")
	}
	return m
}
