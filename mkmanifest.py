#!/usr/bin/env python3
"""Regenerates MANIFEST.json from the table below (keeps it schema-valid at all times)."""
import json, sys
ALL = ["C%02d" % i for i in range(1, 21)]
BASE = "for m in . dnsutil; do (cd /repo/$m && GOFLAGS=-mod=mod GOPROXY=off go test -json -vet=off -count=1 -timeout 25m ./...); done"
checks = {
 "C01": dict(cat="exploration", eng="E1", ref="§5 C01",
   technique="bounded-exhaustive enumeration of abstract records/messages (every registered type × full product or ≤3-4-deviation vectors over boundary alphabets, all 2^16 flag words, all RCODEs 0..4095, all 65536 type codes as RFC 3597 data, section-size grid, 64 KiB RDATA edge) executed on the real Pack/Unpack and compared octet-for-octet with an independent hand-written RFC layout table (ref/wire)",
   text="Every enumerated case runs PackRR/UnpackRR/Msg.Pack/Msg.Unpack and is compared with the reference encoder and strict decoder in three directions (pack==layout, unpack==original, repack==octets); complete within the stated alphabets and deviation bound.",
   note="Trusted: harness/ref/wire (layout table + codec), harness/bind (reflection binding by Go field name). Field values outside the boundary alphabets and >4 simultaneous deviations are not covered."),
 "C03": dict(cat="exploration", eng="E1", ref="§5 C03",
   technique="bounded-exhaustive enumeration of names (all octets × positions, all label-length sequences around the 63/255 limits, all strings ≤6-7 tokens over an escape alphabet) run on the real PackDomainName/UnpackDomainName/IsDomainName/IsFqdn against an independent reference name model",
   text="Every case of three finite spaces is executed on the real code and compared with a reference reader/writer of RFC 1035 names; complete within the stated bounds, nothing sampled.",
   note="Trusted: harness/ref/name (≈200 lines, RFC 1035 §2.3.4/§5.1). Names longer than the enumerated shapes and alphabets outside the token set are not covered."),
 "C19": dict(cat="exploration", eng="E1", ref="§5 C19",
   technique="bounded-exhaustive enumeration of names and name pairs (all names ≤3-4 labels over small escape-heavy label sets, all 256×256 single-octet label pairs, relative×origin products) on the real label helpers against a forward-scanning reference",
   text="Every name / pair in the finite spaces is run through CountLabel, Split, SplitDomainName, NextLabel, PrevLabel, CompareDomainName, IsSubDomain, Fqdn, IsFqdn, CanonicalName, dnsutil.AddOrigin/TrimDomainName and compared with the wire label sequence; complete within bounds.",
   note="Trusted: harness/ref/name. Names are in the library's presentation form as the property states; long names are not enumerated (the helpers have no length-dependent logic)."),
 "C04": dict(cat="exploration", eng="E1", ref="§5 C04",
   technique="bounded-exhaustive enumeration of messages over a collision-prone name universe (every name-bearing RR type × all name assignments; section combinations; every offset around 16384; names >255 via pointer) packed by the real Msg.Pack with and without compression and decoded by an independent strict wire decoder that records every pointer; plus reference-encoded all-names-compressed messages fed to the real Msg.Unpack",
   text="For every enumerated message: compressed and uncompressed outputs decode to the same abstract message (case preserved), compressed ≤ uncompressed, each pointer targets an earlier label start below 16384, no pointer inside RDATA of non-RFC-1035 types, and pointer-laden input is accepted for every type. Complete within the universe and deviation bound.",
   note="Trusted: harness/ref/wire decoder/encoders, harness/bind. Universe of 11 names, ≤4 records; larger messages only through the offset sweep."),
 "C08": dict(cat="exploration", eng="E1", ref="§5 C08",
   technique="bounded-exhaustive enumeration (every registered type × field vectors, the C04 message spaces, all subsets of a boundary type-bitmap set, all APL prefix lengths, offset sweep around 16384) comparing the real Msg.Len/Len(rr) with the real Pack output under both compression settings, and PackBuffer over a grid of caller buffer sizes",
   text="Len ≥ len(Pack) on every case, equality on escape-free messages of the 16 common types, no buffer-space error from Pack/PackBuffer, in-place PackBuffer whenever the buffer exceeds the uncompressed Len(). Complete within the stated spaces.",
   note="Trusted: harness/ref/wire + bind only to build messages; lengths are the library's own outputs compared with each other."),
 "C20": dict(cat="exploration", eng="E1", ref="§5 C20",
   technique="exhaustive enumeration over every registered RR type of reflection-built variant sets (copy / TTL / owner-case / embedded-name-case / one-field-changed / class / other type; all ordered pairs and triples; built and wire-origin) against an identity known by construction and a wire-derived reference relation; all record lists ≤5-6 over a 10-record pool for Dedup",
   text="IsDuplicate is checked to be reflexive, symmetric and transitive on all pairs/triples of every type's variant set, to agree with the by-construction and wire-derived equality, and Dedup to return first representatives with minimum TTL for every list in the bounded space.",
   note="Trusted: the per-type variant generator (reflection over struct fields and tags, cross-checked against a hand-written name-field table). OPT and PrivateRR (constant-false isDuplicate) are outside the relation's domain."),
 "C11": dict(cat="fault_enumeration", eng="E1+E3", ref="§5 C11",
   technique="exhaustive enumeration of TSIG configurations (message shapes × HMAC algorithms × secrets × request MAC × timers-only × name case × fudge × signing-time edges) and of faults (every single-bit flip, every truncation, every single-field replacement of the TSIG RR, TSIG absent/moved/duplicated, envelope chains 1..4 with every envelope altered/removed/duplicated/swapped; scripted in-memory Conn/Transfer/Server) on the real TsigGenerate/TsigVerify/Conn/Transfer code against an independent RFC 8945 digest model (crypto/hmac)",
   text="Every generated MAC equals the reference HMAC over the RFC 8945 digest input; TsigVerify succeeds exactly where the reference says (time edges with the stable-second protocol); every enumerated fault yields an error or is one of the stated digest-neutral alterations. Complete within the enumerated shapes.",
   note="Trusted: harness/ref/tsig (own wire walker + digest construction), crypto/hmac. Excluded from 'altered': the two ID octets (digest is over the original ID), ASCII case of key/algorithm names, octets outside the timers-only digest; counted per class in the evidence."),
 "C15": dict(cat="fault_enumeration", eng="E3", ref="§5 C15",
   technique="exhaustive enumeration of zone shapes (AXFR n≤5, IXFR up-to-date/fallback/1-3 difference sequences) × all 2^(m-1) envelope compositions × TSIG on/off × read segmentation, with every single fault (and all fault pairs for small zones: drop/duplicate/swap/alter/unsign/re-key an envelope, EOF at every octet, wrong ID, RCODE, non-SOA first, empty answer) replayed through the real Transfer.In / Transfer.Out / Server over a scripted in-memory connection against a reference termination machine",
   text="Delivered records, termination point, error/no-error verdict and close ordering (connection before channel) agree with the reference specification (RFC 5936 §2.2, RFC 1995 §4, RFC 8945 §5.3.1) on every enumerated transfer.",
   note="Trusted: harness/ref/xfr; the scripted sender's MAC chaining uses dns.TsigGenerate for the digest (its correctness is C11). Streams with records behind the closing SOA inside one message are recorded as observations only."),
 "C09": dict(cat="exploration", eng="E1", ref="§5 C09",
   technique="bounded-exhaustive enumeration of replies (section sizes {0..3}^3 / {0..4}^3 × record-shape assignments × OPT placement × Compress × TC) × every Truncate size from 0 to the full length+2 (plus 511/512/513/65535) run on the real Msg.Truncate and judged by an independent post-condition specification",
   text="Every (message, size) pair in the space is truncated on a fresh copy and checked against each clause of the statement (fits, section prefixes, no later-section survivor, OPT retained, TC exactly when dropped or pre-set, nothing dropped when it fits, first dropped record would not have fitted).",
   note="Trusted: harness/ref/trunc (pure specification); Msg.Pack only supplies octet counts. For >3 records the shape assignments are bounded (Hamming ≤1 of uniform + staircases)."),
 "C16": dict(cat="exploration", eng="E1", ref="§5 C16",
   technique="exhaustive enumeration over every registered RR type (default, all ≤2-3-deviation vectors and the maximal instance; every EDNS0 option and SVCB key kind through the OPT/SVCB alphabets) and over populated messages: reflection+unsafe walk of the object graphs of original vs Copy/CopyTo and of Unpack results vs their input buffer (address-range disjointness), write-through tests in both directions, overwriting every octet of the input buffer, and deep snapshots around each read-only operation incl. RRSIG.Sign/Verify",
   text="No reachable slice/map/pointee range is shared between a record or message and its copy, nor between an unpacked message and the buffer; no write is observable through the other object; read-only operations leave their arguments bit-identical apart from Rdlength and the OPT extended-RCODE octet.",
   note="Trusted: the reflection walker (follows exported and unexported fields, interfaces, pointers, slices, maps). Strings are exempt (immutable)."),
 "C10": dict(cat="exploration", eng="E1+E3", ref="§5 C10",
   technique="bounded-exhaustive enumeration of RRsets (every RFC 4034 §6.2 name-bearing type + A/AAAA/TXT/HINFO/DNSKEY; 1-3 records; all orders, duplicate patterns, TTLs, owner/RDATA case spellings, wildcard and near-wildcard owners) × 6 algorithms with fixed keys, cross-checked in both directions between the real RRSIG.Sign/Verify and an independent canonical-form + crypto/* signer/verifier; every single-field alteration of records, RRSIG and DNSKEY, every single-bit flip of the signature and canonical RDATA",
   text="Library signatures verify under the reference verifier and reference signatures under the library; results are invariant under the stated presentations; every enumerated alteration and pre-check mismatch is rejected.",
   note="Trusted: harness/ref/canon (validated against RFC 4034/5155/6605/8080 vectors in canon_test.go), crypto/rsa|ecdsa|ed25519; dns.PackRR supplies uncompressed RDATA octets (C01). RRSIG/NSEC RDATA name folding accepted under either RFC 4034 or RFC 6840 reading."),
 "C17": dict(cat="exploration", eng="E1", ref="§5 C17",
   technique="bounded-exhaustive enumeration of DNSKEY RDATA (flags × protocol × algorithm × key lengths/patterns), DS digest types × owner spellings, NSEC3 names × salts × iterations (incl. 65535), NSEC3 interval shapes × hash positions constructed by 160-bit arithmetic × zone membership, fixed and fresh keys through Generate/PrivateKeyString/NewPrivateKey with cross sign/verify, and validity windows × time offsets, each compared with closed-form RFC definitions computed with the standard library",
   text="KeyTag, ToDS, HashName, Match, Cover, key export/import and ValidityPeriod agree with the RFC 4034 App. B / §5.1.4, RFC 5155 §5 and RFC 1982 definitions on every enumerated case (known findings listed separately).",
   note="Trusted: harness/ref/canon. Key material of the fresh-key space is random per run (case set is fixed); VERIF_SEED does not select cases."),
 "C18": dict(cat="fault_enumeration", eng="E1+E3", ref="§5 C18",
   technique="exhaustive enumeration of messages (13 shapes incl. ARCOUNT 254..257, 60 KiB and exactly 65535 octets; Compress on/off) × 6 algorithms × validity-window edges, and of faults (every single-bit flip of message and SIG RDATA for messages ≤1-8 KiB and a stated reduced family above, every truncation ≥12, section-count rewrites, wrong key / signer / algorithm) on the real SIG.Sign/SIG.Verify against an independent RFC 2931 model verified with crypto/*",
   text="Sign succeeds for every message and its output equals Pack(m) ‖ one SIG RR with ARCOUNT+1 whose signature the reference verifies; Verify accepts the untampered buffer exactly inside the window (stable-second protocol) and rejects every enumerated fault without panicking.",
   note="Trusted: harness/ref/sig0 (own wire walker, RFC 2931 signed data, RFC 3110/6605/8080 key decoding), crypto/*. The 11 octets of the SIG RR's own header are excluded from 'altered' (not covered by RFC 2931)."),
 "C02": dict(cat="exploration", eng="E1+E3", ref="§5 C02",
   technique="bounded-exhaustive enumeration of hostile wire input: all byte strings ≤3 octets into the name decoder, all RDATA strings ≤2 octets (+ boundary triples) behind a valid header for every registered type, all payloads ≤2 octets for every EDNS0 option / SVCB key, every truncation and every single-octet substitution (all 256 values) of ≈1400 structured seed messages, all 9^4 pointer graphs over 4 name slots, pointer chains 1..140, names of 250..260 octets through 0..3 pointers, lying header counts {0,1,2,3,255,65535}^4 and 64 KiB inputs; each run through Msg.Unpack/UnpackRR/UnpackDomainName with panic capture, a per-case hang watchdog and a per-decode allocation bound, and accepted results through String/Len/Copy/Pack",
   text="No panic, no hang, allocation ≤ 4096·len+64 KiB per decode, accepted names within 63/255, records within the input, and no panic / Len-underestimate when accepted results are printed, measured, copied and re-packed — for every input in the enumerated spaces.",
   note="Trusted: runtime allocation counters (screen) confirmed by ReadMemStats; harness/ref/wire only to build seeds and locate name fields. NOT covered: arbitrary inputs beyond the enumerated neighbourhoods (the property's 'all byte strings ≤ 65535')."),
 "C06": dict(cat="exploration", eng="E1", ref="§5 C06",
   technique="bounded-exhaustive enumeration of abstract zone programs (≤2 lines over a 183-line alphabet, ≤3-5 lines over a 25-line alphabet; $ORIGIN/$TTL/$GENERATE/$INCLUDE) × parser configurations (origin, default TTL, include off / MapFS / on-disk) × lexical renderings (every single deviation of 10 kinds, ≤2-3 deviations on a sub-space), TTL spellings, $GENERATE ranges × templates, include chains of depth 1..8 — parsed by the real ZoneParser and compared with an independent interpreter of RFC 1035 §5 / RFC 2308 §4",
   text="For every program/configuration/rendering the records returned by ZoneParser.Next equal the interpreter's denotation (owner labels, class, TTL, type, typed RDATA), all renderings of a program agree, and invalid programs produce an error and no further record.",
   note="Trusted: harness/ref/zone (interpreter + renderer). Choices the statement leaves open (TTL inherited by a $GENERATE body, $TTL leaking out of an include, FS used by an include inside $GENERATE) are left unspecified by the model."),
 "C07": dict(cat="exploration", eng="E1", ref="§5 C07",
   technique="bounded-exhaustive enumeration of hostile zone text: all strings ≤4-5 tokens over a 22-token alphabet × 4 prefixes × origins × include settings (off / counting FS / self-including FS / 8-deep chain / on-disk sentinel), token and comment lengths around multiples of the lexer's buffer size inside and outside parentheses, unbalanced parentheses at every token boundary, nested $GENERATE spellings and range bounds — run through the real ZoneParser/NewRR with panic capture, watchdog, allocation bound, Open-call counting",
   text="Parsing terminates without panic within the allocation bound, errors are sticky and positioned (line ≥ 1), no file is opened unless includes are allowed, include nesting stops at the depth limit, nested $GENERATE is rejected — on every enumerated input.",
   note="Trusted: the counting fs.FS and on-disk sentinel; runtime allocation counters. Arbitrary byte strings beyond the token alphabet are not covered."),
 "C13": dict(cat="model_checking", eng="E2", ref="§5 C13",
   technique="stateless model checking of the real server.go under a controlled cooperative scheduler (build-time AST rewrite: sync→vsync, go/close/select→vsched, simulated net.Listener/Conn/PacketConn): depth-first enumeration of ALL schedules of 12 closed scenarios (serve ∥ 0-2 clients ∥ Shutdown; blocked handler + cancelled context; double start/shutdown; TCP and PacketConn) up to a preemption bound of 1-3 (map iteration order explored as a choice), with a vector-clock happens-before race check on instrumented Server/response field accesses in every schedule and replay-twice before any report",
   text="In every explored schedule: no deadlock, Shutdown returns only after started handlers exited, no handler starts afterwards, written replies reach their clients, the serve call returns nil, nothing (goroutine, connection, listener) is left when Shutdown returns, double start/stop return errors, no happens-before race.",
   note="Trusted: harness/shim (scheduler, vsync, simnet: ≈900 lines), the rewriter (fails loudly on constructs it does not model). Time model: pending deadlines never fire. *net.UDPConn and crypto/tls paths are not under the scheduler. Bound per scenario is in the evidence; the restart-during-shutdown defect is a known finding."),
}
na_reason = "check not built yet in this session (planned in DESIGN.md §5); not claimed until it runs"
m = {
 "version": 1,
 "setup_cmd": "cd /verif && ./setup.sh",
 "hooks": {"guard": "verif", "enable": "none committed in /repo: instrumentation is injected at build time with `go build -tags verif -overlay` (AST-rewritten copies of server.go/serve_mux.go + virtual shim packages), see DESIGN.md §3", "baseline_off_cmd": BASE, "source_commits": [], "add_only": True},
 "engines": [
  {"name": "E2 vsched", "path": "harness/cmd/vsched", "serves_properties": ["C12", "C13", "C14"], "kind_free_text": "controlled-scheduler stateless model checker over the real server code (preemption-bounded DFS, vector-clock race check, replay discipline)"},
  {"name": "E1/E3 vcheck", "path": "harness/cmd/vcheck", "serves_properties": sorted(k for k,v in checks.items() if v["eng"] in ("E1","E3","E1+E3","E1+E2","E3+E2")), "kind_free_text": "process-sharded bounded-exhaustive enumeration of inputs / programs / fault scripts against reference models, on the real package"},
 ],
 "checks": [], "not_applicable": [],
 "notes": "run.sh <id> <quick|thorough> rebuilds from /repo's working tree. Known findings: known_findings.txt.",
}
for pid in ALL:
    c = checks.get(pid)
    if not c:
        m["not_applicable"].append({"property_id": pid, "reason": na_reason}); continue
    m["checks"].append({"property_id": pid, "quick_cmd": "./run.sh %s quick" % pid, "thorough_cmd": "./run.sh %s thorough" % pid,
      "evidence_file": "/verif/evidence/%s.json" % pid, "replay_cmd_template": "./run.sh %s --replay {path}" % pid, "engine": c["eng"],
      "level_claimed": {"category": c["cat"], "text": c["text"], "design_ref": c["ref"]}, "level_note": c["note"], "technique": c["technique"]})
json.dump(m, open("/verif/MANIFEST.json", "w"), indent=1)
try:
    import jsonschema
    jsonschema.validate(m, json.load(open("/root/.vp/MANIFEST.schema.json"))); print("MANIFEST valid,", len(m["checks"]), "checks")
except ImportError:
    print("written (jsonschema not importable here)")
