# sourced by every script: offline Go build environment (see DESIGN.md §3)
export GOFLAGS=-mod=mod
export GOPROXY=off
unset GOTOOLCHAIN GOSUMDB 2>/dev/null || true
export GOTOOLCHAIN=auto
export VERIF_ROOT=/verif
