#!/bin/bash
# Run once after a fresh restore: pre-build the harness so the first check does not pay a cold build.
set -e
ROOT=$(cd "$(dirname "$0")" && pwd)
. "$ROOT/env.sh"
mkdir -p "$ROOT/bin" "$ROOT/evidence" "$ROOT/replays"
cd "$ROOT/harness"
go build -o "$ROOT/bin/vcheck" ./cmd/vcheck

# engine E2: rewriter + instrumented server build (pre-warms the build cache)
go build -o "$ROOT/bin/instrument" ./cmd/instrument
mkdir -p "$ROOT/bin/e2" && python3 "$ROOT/harness/mkoverlay.py" "$ROOT/bin/e2" "$ROOT/bin/instrument"
go build -tags verif -overlay "$ROOT/bin/e2/overlay.json" -o "$ROOT/bin/vsched" ./cmd/vsched
echo setup e2 ok
