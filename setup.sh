#!/bin/bash
# Run once after a fresh restore: pre-build the harness so the first check does not pay a cold build.
set -e
ROOT=$(cd "$(dirname "$0")" && pwd)
. "$ROOT/env.sh"
mkdir -p "$ROOT/bin" "$ROOT/evidence" "$ROOT/replays"
cd "$ROOT/harness"
go build -o "$ROOT/bin/vcheck" ./cmd/vcheck
echo setup ok
