#!/usr/bin/env python3
"""Regenerates the machine-derived tables of DESIGN.md §10 (between the BEGIN/END GENERATED markers) from
evidence/*.json, selftest/results.json, known_findings.txt and seeded/*/meta.json."""
import json, glob, os, re, subprocess
out = []
# ---- coverage per property
out.append("#### Coverage of the last committed quick runs (from `evidence/*.json`)\n")
out.append("| property | level | spaces | cases / executions | non-trivial | exhaustive within bounds | known findings | wall s |")
out.append("|---|---|---|---|---|---|---|---|")
for f in sorted(glob.glob("/verif/evidence/C*.json")):
    e = json.load(open(f)); c = e["coverage"]
    extra = ""
    if "states" in c: extra = " (%d scheduler states, %d scheduling points)" % (c["states"], c["transitions"])
    out.append("| %s | %s | %d | %d%s | %d | %s | %s | %.0f |" % (e["property_id"], e["level"], len(c.get("spaces", [])), c["evaluations"], extra, c["distinct_nontrivial"], c.get("exhaustive"), c.get("known_findings_reported", 0), e["wall_s"]))
# ---- fixes and findings
out.append("\n#### Defects repaired in `/repo` (one `fix:` commit each; `fixed:` lines of `known_findings.txt`)\n")
out.append("| property | commit | what failed |")
out.append("|---|---|---|")
finds = []
for ln in open("/verif/known_findings.txt"):
    ln = ln.strip()
    if ln.startswith("fixed:"):
        m = re.match(r"fixed: property=(\S+) (\S+) (.*)", ln)
        out.append("| %s | `%s` | %s |" % (m.group(1), m.group(2), m.group(3).replace("|", "\\|")))
    elif ln.startswith("finding:"):
        m = re.match(r"finding: property=(\S+) key=(\S+) (.*)", ln)
        finds.append(m.groups())
out.append("\n#### Known findings (genuine defects recorded, not repaired; `finding:` lines)\n")
out.append("| property | key | what fails |")
out.append("|---|---|---|")
for p, k, d in finds:
    out.append("| %s | `%s` | %s |" % (p, k, d.replace("|", "\\|")))
# ---- mutants
out.append("\n#### Deliberately broken versions written for this harness (`selftest/mutants*.py`, applied through `go build -overlay`)\n")
out.append("`suite` = the repository's own tests still pass with the change (blank = not re-measured on a quiet machine); `detected` = the property's quick check exits 1 with a VIOLATION line.\n")
out.append("| mutant | property | change | suite passes | detected | first keys |")
out.append("|---|---|---|---|---|---|")
if os.path.exists("/verif/selftest/results.json"):
    for r in json.load(open("/verif/selftest/results.json")):
        keys = "; ".join(k.replace("key=", "").split(" sub=")[0] for k in r.get("keys", [])[:2])
        det = r.get("detected")
        if r.get("expect_silent"): det = "stays silent (harmless change)" if det else "FALSE ALARM"
        out.append("| %s | %s | %s | %s | %s | %s |" % (r["id"], r["property"], r["what"].replace("|", "\\|"), {True: "yes", False: "no", None: ""}[r.get("baseline_passes")], det, keys))
# ---- seeded
out.append("\n#### Changes written independently by fresh sub-agents (`seeded/<id>/`)\n")
out.append("Each agent saw only the property text and a scratch worktree. `confirmed` = re-verified here in a fresh worktree: applies, builds, repository suite passes, demonstration fails with and passes without the change.\n")
out.append("| id | property | change | needs | confirmed | detected by quick check | keys |")
out.append("|---|---|---|---|---|---|---|")
for f in sorted(glob.glob("/verif/seeded/*/meta.json")):
    m = json.load(open(f))
    out.append("| %s | %s | %s | %s | %s | %s | %s |" % (m["id"], m["property"], m["change"].replace("|", "\\|"), m["needs"].replace("|", "\\|"), m.get("confirmed"), m.get("detected_quick") if m.get("detected_by") is None else m.get("detected_by"), m.get("keys", "")))
txt = "\n".join(out) + "\n"
d = open("/verif/DESIGN.md").read()
a, b = "<!-- BEGIN GENERATED -->\n", "<!-- END GENERATED -->\n"
if a in d:
    d = d[:d.index(a) + len(a)] + txt + d[d.index(b):]
else:
    d += "\n" + a + txt + b
open("/verif/DESIGN.md", "w").write(d)
print("tables regenerated")
