# C07 mutants: safety of the zone lexer/parser (scan.go, generate.go). Format as in mutants.py.
_GATE = "\t\t\tif !zp.includeAllowed {\n\t\t\t\treturn zp.setParseError(\"$INCLUDE directive not allowed\", l)\n\t\t\t}\n"
MUTANTS = [
 dict(id="C07-include-gate-after-open", prop="C07", what="the includeAllowed test is made after the file has been opened",
      files={"scan.go": [(_GATE + "\t\t\tif zp.includeDepth >= maxIncludeDepth {", "\t\t\tif zp.includeDepth >= maxIncludeDepth {"),
                         ("\t\t\tif e1 != nil {\n\t\t\t\tvar as string", _GATE + "\t\t\tif e1 != nil {\n\t\t\t\tvar as string")]}),
 dict(id="C07-include-depth-gt", prop="C07", what="include depth compared with > instead of >= (one level deeper)",
      files={"scan.go": [("if zp.includeDepth >= maxIncludeDepth {", "if zp.includeDepth > maxIncludeDepth {")]}),
# Not listed (equivalent at the API): removing `case l.err:` in zlexer.Next. ZoneParser.parseErr is sticky on its own, and
# zl.l.err is never cleared, so every later token is an error token too; the only place where the lexer's own stickiness
# shows is after the $INCLUDE handler has ignored an error token (known finding lexical-error-swallowed/$INCLUDE), where
# the mutant reports an error instead of none.
 dict(id="C07-parser-error-not-sticky", prop="C07", what="ZoneParser.Next forgets an earlier parse error and goes on reading",
      files={"scan.go": [("func (zp *ZoneParser) Next() (RR, bool) {\n\tif zp.parseErr != nil {\n\t\treturn nil, false\n\t}\n", "func (zp *ZoneParser) Next() (RR, bool) {\n\tif zp.parseErr != nil && zp.parseErr.lex.line == 0 {\n\t\treturn nil, false\n\t}\n\tzp.parseErr = nil\n")]}),
 dict(id="C07-comment-buffer-growth", prop="C07", what="the comment buffer is no longer grown",
      files={"scan.go": [("\t\tif comi >= len(com) {\n\t\t\t// if buffer length is insufficient, increase it.\n\t\t\tcom = append(com[:], make([]byte, maxTok)...)\n\t\t}\n", "")]}),
 dict(id="C07-generate-range-guard", prop="C07", what="the 65536-step guard of $GENERATE is dropped",
      files={"generate.go": [("end < start || (end-start)/step > 65535 {", "end < start {")]}),
 dict(id="C07-nested-generate-allowed", prop="C07", what="a $GENERATE body may contain a $GENERATE",
      files={"generate.go": [("zp.sub.generateDisallowed = true", "zp.sub.generateDisallowed = false")]}),
 dict(id="C07-token-buffer-quadratic", prop="C07", what="the token buffer grows by copying itself for every octet beyond maxTok (quadratic allocation)",
      files={"scan.go": [("\t\tif stri >= len(str) {\n\t\t\t// if buffer length is insufficient, increase it.\n\t\t\tstr = append(str[:], make([]byte, maxTok)...)\n\t\t}\n", "\t\tif stri >= len(str) {\n\t\t\tstr = append(append([]byte(nil), str...), make([]byte, 1)...)\n\t\t}\n")]}),
]
