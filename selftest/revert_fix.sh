#!/bin/bash
# revert_fix.sh <fix-commit> <Cnn> [tier] — runs the check of property Cnn against /repo with the files of one
# "fix:" commit put back to their state before that commit (through a build overlay; /repo is not touched).
# Expected: exit 1 with a VIOLATION line — a repaired defect that returns is reported again.
set -u
c=${1:?commit}; p=${2:?property}; tier=${3:-quick}
O=/root/scratch/revert-$c-$p; rm -rf "$O"; mkdir -p "$O/files" "$O/out/evidence" "$O/bin"
cp /verif/known_findings.txt "$O/out/"
python3 - "$c" "$O" <<'PY'
import json,subprocess,sys,os
c,o=sys.argv[1],sys.argv[2]
files=subprocess.run(["git","-C","/repo","diff","--name-only",c+"~1",c],stdout=subprocess.PIPE,text=True).stdout.split()
rep={}
for f in files:
    if not f.endswith(".go") or f.endswith("_test.go"): continue
    cur=open("/repo/"+f).read()
    # reverse-apply only this commit's change to the current file
    d=subprocess.run(["git","-C","/repo","diff",c+"~1",c,"--",f],stdout=subprocess.PIPE,text=True).stdout
    dst=os.path.join(o,"files",f.replace("/","_"))
    open(dst,"w").write(cur)
    p=subprocess.run(["patch","-R","-s",dst],input=d,text=True)
    if p.returncode!=0: sys.exit("cannot reverse-apply "+c+" to "+f)
    rep["/repo/"+f]=dst
json.dump({"Replace":rep},open(o+"/ov.json","w"))
PY
[ $? -eq 0 ] || exit 2
out=$(VERIF_OVERLAY="$O/ov.json" VERIF_OUT_ROOT="$O/out" VERIF_BIN="$O/bin" /verif/run.sh "$p" "$tier" 2>&1); rc=$?
echo "$out" | grep -E "^VIOLATION|key=" | grep -v KNOWN | head -4
echo "revert $c vs $p: exit $rc"
rm -rf "$O"
[ $rc -eq 1 ]
