# C17 mutants: closed-form computations (key tag, DS, NSEC3 hash / cover, key export, validity).
# Each must be caught by `run.sh C17 quick` through a key that does not occur on the unchanged tree.
MUTANTS = [
 dict(id="C17-keytag-parity", prop="C17", what="KeyTag adds odd-indexed octets as high and even-indexed octets as low",
      files={"dnssec.go": [("\t\tif i&1 != 0 {\n\t\t\tkeytag += int(v) // must be larger than uint32", "\t\tif i&1 == 0 {\n\t\t\tkeytag += int(v) // must be larger than uint32")]}),
 dict(id="C17-keytag-nofold", prop="C17", what="KeyTag drops the carry fold (only visible when the 16-bit sum overflows)",
      files={"dnssec.go": [("\tkeytag += keytag >> 16 & 0xFFFF\n", "\tkeytag += 0\n")]}),
 dict(id="C17-hash-iter", prop="C17", what="HashName performs one additional iteration (k <= iter)",
      files={"nsecx.go": [("for k := uint16(0); k < iter; k++ {", "for k := 0; k <= int(iter); k++ {")]}),
 dict(id="C17-ds-owner-case", prop="C17", what="ToDS digests the owner name as spelled instead of its canonical (lower-case) form",
      files={"dnssec.go": [("PackDomainName(CanonicalName(k.Hdr.Name), owner, 0, nil, false)", "PackDomainName(Fqdn(k.Hdr.Name), owner, 0, nil, false)")]}),
 dict(id="C17-privkey-nopad", prop="C17", what="PrivateKeyString writes the ECDSA scalar without left padding (only differs when the scalar has a leading zero octet)",
      files={"dnssec_privkey.go": [("\t\tprivate := toBase64(intToBytes(p.D, intlen))\n", "\t\tprivate := toBase64(p.D.Bytes())\n\t\t_ = intlen\n")]}),
 dict(id="C17-cover-next-inclusive", prop="C17", what="NSEC3.Cover treats a hash equal to the next hash as covered (normal interval)",
      files={"nsecx.go": [("\treturn nameHash < nextHash // if nameHash is before nextHash is it covered", "\treturn nameHash <= nextHash // if nameHash is before nextHash is it covered")]}),
 dict(id="C17-validity-exclusive", prop="C17", what="ValidityPeriod excludes the expiration second itself",
      files={"dnssec.go": [("\treturn ti <= utc && utc <= te\n", "\treturn ti <= utc && utc < te\n")]}),
 dict(id="C17-rsa-exponent-len", prop="C17", what="setPublicKeyRSA writes the 3-octet exponent length form already for exponents of 3 octets (65537)",
      files={"dnssec_keygen.go": [("\tif len(i) < 256 {\n", "\tif len(i) < 3 {\n")]}),
]
