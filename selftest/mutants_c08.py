MUTANTS = [
 dict(id="C08-mx-len", prop="C08", what="MX.len forgets the 2-octet preference",
      files={"ztypes.go": [("func (rr *MX) len(off int, compression map[string]struct{}) int {\n\tl := rr.Hdr.len(off, compression)\n\tl += 2 // Preference\n", "func (rr *MX) len(off int, compression map[string]struct{}) int {\n\tl := rr.Hdr.len(off, compression)\n")]}),
 dict(id="C08-packlen-plus1", prop="C08", what="Pack sizes its buffer without the +1 slack",
      files={"msg.go": [("if packLen := uncompressedLen + 1; len(msg) < packLen {", "if packLen := uncompressedLen; len(msg) < packLen {")]}),
 dict(id="C08-complen-search", prop="C08", what="Len's compression simulation registers names up to and including offset 16384",
      files={"msg.go": [("if msgOff+off < maxCompressionOffset {", "if msgOff+off <= maxCompressionOffset+64 {")]}),
 dict(id="C08-amtrelay-len", prop="C08", what="revert the discovery-bit mask in AMTRELAY.len only",
      files={"ztypes.go": [("switch rr.GatewayType & 0x7f {\n\tcase AMTRELAYIPv4:", "switch rr.GatewayType {\n\tcase AMTRELAYIPv4:")]}),
 dict(id="C08-nsec-bitmaplen", prop="C08", what="typeBitMapLen forgets the window/length octets of the last window",
      files={"msg_helpers.go": [("\t\tlastwindow, lastlength = window, length\n\t}\n\tl += int(lastlength) + 2\n\treturn l", "\t\tlastwindow, lastlength = window, length\n\t}\n\tl += int(lastlength) + 1\n\treturn l")]}),
]
