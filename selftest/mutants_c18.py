# C18 (SIG(0)) mutants: realistic edits of sig0.go that keep the repository's own tests green (TestSIG0 signs one
# uncompressed query per algorithm with a ±300 s window, alters octet 13 and uses an expired window).
# NOTE: while the pinned-tree defects D4/D5 (and the reused-SIG finding) are neither fixed nor listed in
# known_findings.txt, the unmutated check already exits 1; a mutant counts as detected by its *own* key(s):
#   C18-verify-rdlen-guard   -> verify/panic-truncated
#   C18-verify-fixed-guard   -> verify/panic-truncated
#   C18-time-expire-edge     -> verify/untampered-rejected            (windows (0,0) and (-1,0))
#   C18-time-incept-edge     -> verify/outside-window-accepted        (window (+1,+2))
#   C18-signer-skip          -> verify/wrong-key-accepted
#   C18-id-not-signed        -> sign/reference-rejects                (and verify/flip-accepted/message with a consistent reference)
#   C18-sigdata-skips-signer -> sign/reference-rejects                (and verify/flip-accepted/sig-rdata: case flips in the signer name)
MUTANTS = [
 dict(id="C18-verify-rdlen-guard", prop="C18", what="Verify: bounds guard before reading RDLENGTH removed, a truncation inside a record's fixed part panics",
      files={"sig0.go": [("\t\tif offset+1 >= buflen {\n\t\t\tcontinue\n\t\t}\n", "")]}),
 dict(id="C18-verify-fixed-guard", prop="C18", what="Verify: bounds guard before reading expiration/inception removed, a truncation inside the SIG RDATA panics",
      files={"sig0.go": [("\tif offset+4+4 >= buflen {\n\t\treturn &Error{err: \"overflow unpacking signed message\"}\n\t}\n", "")]}),
 dict(id="C18-time-expire-edge", prop="C18", what="Verify: expiration edge exclusive (now >= expire rejected)",
      files={"sig0.go": [("if now < incept || now > expire {", "if now < incept || now >= expire {")]}),
 dict(id="C18-time-incept-edge", prop="C18", what="Verify: accepts one second before inception",
      files={"sig0.go": [("if now < incept || now > expire {", "if now+1 < incept || now > expire {")]}),
 dict(id="C18-signer-skip", prop="C18", what="Verify: signer name no longer compared with the key's owner name",
      files={"sig0.go": [("if !equal(signername, k.Header().Name) {", "if false && !equal(signername, k.Header().Name) {")]}),
 dict(id="C18-id-not-signed", prop="C18", what="Sign and Verify both leave the message ID out of the digest (consistent on both sides, so sign/verify round trips)",
      files={"sig0.go": [("\th.Write(buf[:len(mbuf)])\n", "\th.Write(buf[2:len(mbuf)])\n"),
                         ("\th.Write(buf[:10])\n", "\th.Write(buf[2:10])\n")]}),
 dict(id="C18-sigdata-skips-signer", prop="C18", what="Sign and Verify both digest the SIG RDATA without the trailing signer name (consistent on both sides)",
      files={"sig0.go": [("\th.Write(buf[len(mbuf)+1+2+2+4+2:])\n", "\th.Write(buf[len(mbuf)+1+2+2+4+2 : len(mbuf)+1+2+2+4+2+18])\n"),
                         ("\th.Write(buf[sigstart:sigend])\n", "\th.Write(buf[sigstart : sigstart+18])\n")]}),
]
