# Mutants: realistic edits that keep the repository's own tests green but break a property.
# files: {path: [(old, new), ...]} — every `old` must occur exactly once.
BASE = [
 dict(id="C03-label64", prop="C03", what="label length limit off by one in IsDomainName and packDomainName (64-octet labels accepted)",
      files={"defaults.go": [("if labelLen >= 1<<6 { // top two bits of length must be clear\n\t\t\t\treturn labels, false", "if labelLen > 1<<6 { // top two bits of length must be clear\n\t\t\t\treturn labels, false")],
             "msg.go": [("if labelLen >= 1<<6 { // top two bits of length must be clear\n\t\t\t\treturn len(msg), ErrRdata", "if labelLen > 1<<6 { // top two bits of length must be clear\n\t\t\t\treturn len(msg), ErrRdata")]}),
 dict(id="C03-revert-D1", prop="C03", what="revert the 255-octet fix in IsDomainName only",
      files={"defaults.go": [("if off+1 > maxDomainNameWireOctets {", "if false {")]}),
 dict(id="C03-escape-table", prop="C03", what="escapedByteLarge shifted: octet 0x7f printed as \\128",
      files={"types.go": [("b -= '~' + 1\n", "b -= '~'\n")]}),
 dict(id="C03-special-dot", prop="C03", what="'.' no longer escaped inside labels on output",
      files={"types.go": [("case '.', ' ', '\\'', '@', ';', '(', ')', '\"', '\\\\':", "case ' ', '\\'', '@', ';', '(', ')', '\"', '\\\\':")]}),
 dict(id="C19-nextlabel-parity", prop="C19", what="NextLabel treats a dot after two backslashes as escaped",
      files={"labels.go": [("\t\tif (j-i)%2 == 0 {\n\t\t\tcontinue\n\t\t}\n\n\t\treturn i + 1, false", "\t\tif (j-i)%2 == 0 || j < i-2 {\n\t\t\tcontinue\n\t\t}\n\n\t\treturn i + 1, false")]}),
 dict(id="C19-equal-fold", prop="C19", what="equal() folds '@' and '`' (|= 0x20 applied to 0x40..0x5a)",
      files={"labels.go": [("if ai >= 'A' && ai <= 'Z' {", "if ai >= '@' && ai <= 'Z' {")]}),
 dict(id="C19-trim-slice", prop="C19", what="TrimDomainName keeps the separating dot",
      files={"dnsutil/util.go": [("return s[:slabels[len(slabels)-m]-1]", "return s[:slabels[len(slabels)-m]]")]}),
]

# per-property mutant files mutants_cNN.py each define MUTANTS = [...]
import glob, os, importlib.util
MUTANTS = list(BASE)
for _f in sorted(glob.glob(os.path.join(os.path.dirname(os.path.abspath(__file__)), "mutants_*.py"))):
    _sp = importlib.util.spec_from_file_location(os.path.basename(_f)[:-3], _f)
    _m = importlib.util.module_from_spec(_sp); _sp.loader.exec_module(_m)
    MUTANTS += _m.MUTANTS
