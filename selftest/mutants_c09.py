# C09 (Msg.Truncate) mutants. Format as in mutants.py: every `old` occurs exactly once in the file.
# All nine are detected by the quick tier. The repository's own tests stay green for C09-floor-after-opt,
# C09-no-floor, C09-extra-off-by-one, C09-opt-budget-root-octet and C09-tc-ignores-authority; the four taken
# literally from DESIGN §5 C09 (opt-budget, tc-before-extra-cut, loop-returns-l, loop-ge) are also noticed by
# msg_truncate_test.go (baseline_passes=false in results.json).
_T = "msg_truncate.go"
MUTANTS = [
 dict(id="C09-opt-budget", prop="C09", what="the OPT record's length is no longer subtracted from the budget: result overshoots the size by up to 11 octets",
      files={_T: [("\t\tsize -= Len(edns0)\n", "\t\t_ = Len(edns0)\n")]}),
 dict(id="C09-tc-before-extra-cut", prop="C09", what="TC computed from answer and authority only: a cut inside the additional section leaves TC clear",
      files={_T: [("len(dns.Answer) > numAnswer ||\n\t\tlen(dns.Ns) > numNS || len(dns.Extra) > numExtra", "len(dns.Answer) > numAnswer ||\n\t\tlen(dns.Ns) > numNS")]}),
 dict(id="C09-floor-after-opt", prop="C09", what="the 512 floor is applied after the early return and after the OPT subtraction: budgets 512..522 minus OPT are rounded up again, result exceeds the size",
      files={_T: [("\tif size < MinMsgSize {\n\t\tsize = MinMsgSize\n\t}\n\n\tl := msgLenWithCompressionMap(dns, nil) // uncompressed length", "\tl := msgLenWithCompressionMap(dns, nil) // uncompressed length"),
                  ("\tcompression := make(map[string]struct{})\n\n\tl = headerSize", "\tif size < MinMsgSize {\n\t\tsize = MinMsgSize\n\t}\n\n\tcompression := make(map[string]struct{})\n\n\tl = headerSize")]}),
 dict(id="C09-no-floor", prop="C09", what="the 512 floor is dropped: Truncate(100) cuts a 300-octet reply",
      files={_T: [("\tif size < MinMsgSize {\n\t\tsize = MinMsgSize\n\t}\n", "")]}),
 dict(id="C09-loop-returns-l", prop="C09", what="truncateLoop returns the length before the record that did not fit instead of size: later sections keep adding records after a cut",
      files={_T: [("\t\tl += r.len(l, compression)\n\t\tif l > size {\n\t\t\t// Return size, rather than l prior to this record,\n\t\t\t// to prevent any further records being added.\n\t\t\treturn size, i",
                   "\t\trl := r.len(l, compression)\n\t\tl += rl\n\t\tif l > size {\n\t\t\treturn l - rl, i")]}),
 dict(id="C09-extra-off-by-one", prop="C09", what="additional section walked with budget size-1: a record (or whole message) that fits exactly is dropped",
      files={_T: [("truncateLoop(dns.Extra, size, l, compression)", "truncateLoop(dns.Extra, size-1, l, compression)")]}),
 dict(id="C09-loop-ge", prop="C09", what="`l > size` → `l >= size` in truncateLoop: exact fits are dropped (the repository's own TestRequestTruncateAnswerExact also notices this one)",
      files={_T: [("\t\tif l > size {\n\t\t\t// Return size", "\t\tif l >= size {\n\t\t\t// Return size")]}),
 dict(id="C09-opt-budget-root-octet", prop="C09", what="OPT budget forgets the OPT owner-name octet (Len(edns0)-1 subtracted): result overshoots the size by one octet when the budget is used up exactly",
      files={_T: [("\t\tsize -= Len(edns0)\n", "\t\tsize -= Len(edns0) - 1\n")]}),
 dict(id="C09-tc-ignores-authority", prop="C09", what="TC computed from answer and additional only: a cut inside the authority section of a reply without additional records leaves TC clear",
      files={_T: [("len(dns.Answer) > numAnswer ||\n\t\tlen(dns.Ns) > numNS || len(dns.Extra) > numExtra", "len(dns.Answer) > numAnswer ||\n\t\tlen(dns.Extra) > numExtra")]}),
]
