MUTANTS = [
 dict(id="C16-nsec-copy", prop="C16", what="NSEC.copy shares the type bitmap slice",
      files={"ztypes.go": [("return &NSEC{rr.Hdr, rr.NextDomain, cloneSlice(rr.TypeBitMap)}", "return &NSEC{rr.Hdr, rr.NextDomain, rr.TypeBitMap}")]}),
 dict(id="C16-unpack-a-alias", prop="C16", what="unpackDataA returns a sub-slice of the input buffer",
      files={"msg_helpers.go": [("return cloneSlice(msg[off : off+net.IPv4len]), off + net.IPv4len, nil", "return msg[off : off+net.IPv4len : off+net.IPv4len], off + net.IPv4len, nil")]}),
 dict(id="C16-sign-mutates", prop="C16", what="rawSignatureData canonicalises the caller's records instead of copies",
      files={"dnssec.go": [("\t\tr1 := r.copy()\n\t\th := r1.Header()\n\t\th.Ttl = s.OrigTtl", "\t\tr1 := r\n\t\th := r1.Header()\n\t\th.Ttl = s.OrigTtl")]}),
 dict(id="C16-svcb-hint-alias", prop="C16", what="SVCBIPv4Hint.unpack keeps slices of the input buffer",
      files={"svcb.go": [("\tif len(b) == 0 || len(b)%4 != 0 {\n\t\treturn errors.New(\"bad svcbipv4hint: ipv4 address byte array length is not a multiple of 4\")\n\t}\n\tb = cloneSlice(b)", "\tif len(b) == 0 || len(b)%4 != 0 {\n\t\treturn errors.New(\"bad svcbipv4hint: ipv4 address byte array length is not a multiple of 4\")\n\t}")]}),
 dict(id="C16-subnet-revert", prop="C16", what="revert the EDNS0_SUBNET.copy fix",
      files={"edns.go": [("\t\tcloneSlice(e.Address),\n\t}", "\t\te.Address,\n\t}")]}),
 dict(id="C16-msg-copyto-question", prop="C16", what="Msg.CopyTo shares the Question slice",
      files={"msg.go": [("\tr1.Question = cloneSlice(dns.Question)", "\tr1.Question = dns.Question")]}),
]
