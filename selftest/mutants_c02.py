MUTANTS = [
 dict(id="C02-prealloc-count", prop="C02", what="unpackRRslice pre-allocates from the attacker-controlled count",
      files={"msg.go": [("\t// Don't pre-allocate, l may be under attacker control\n\tvar dst []RR\n", "\tdst := make([]RR, 0, l)\n")]}),
 dict(id="C02-label-overrun", prop="C02", what="UnpackDomainName does not check that a label lies inside the message",
      files={"msg.go": [("\t\t\tif off+c > lenmsg {\n\t\t\t\treturn \"\", lenmsg, ErrBuf\n\t\t\t}\n\t\t\tbudget -= c + 1", "\t\t\tbudget -= c + 1")]}),
 dict(id="C02-no-hop-limit", prop="C02", what="compression pointer hop limit removed (self-pointer loops forever)",
      files={"msg.go": [("if ptr++; ptr > maxCompressionPointers {", "if ptr++; false {")]}),
 dict(id="C02-txt-len-underestimate", prop="C02", what="TXT.len forgets the length octet of each string (Pack then runs out of buffer on accepted messages)",
      files={"ztypes.go": [("func (rr *TXT) len(off int, compression map[string]struct{}) int {\n\tl := rr.Hdr.len(off, compression)\n\tfor _, x := range rr.Txt {\n\t\tl += len(x) + 1\n\t}", "func (rr *TXT) len(off int, compression map[string]struct{}) int {\n\tl := rr.Hdr.len(off, compression)\n\tfor _, x := range rr.Txt {\n\t\tl += len(x)\n\t}")]}),
 dict(id="C02-budget-off", prop="C02", what="name budget check relaxed by one label (256-octet names accepted from the wire)",
      files={"msg.go": [("\t\t\tif budget <= 0 {\n\t\t\t\treturn \"\", lenmsg, ErrLongDomain", "\t\t\tif budget < -1 {\n\t\t\t\treturn \"\", lenmsg, ErrLongDomain")]}),
 dict(id="C02-apl-afdlen", prop="C02", what="APL decoder does not bound the address length by the family size",
      files={"msg_helpers.go": [("\tif afdlen > len(ip) {\n\t\treturn APLPrefix{}, len(msg), &Error{err: \"APL length too long\"}\n\t}\n", "")]}),
]
