# C10 mutants: edits of dnssec.go that Sign and Verify share (so sign-then-verify tests cannot see them)
# or that remove a pre-check. Each must be caught by `run.sh C10 quick` through a key that does not occur
# on the unchanged tree.
MUTANTS = [
 dict(id="C10-mx-nolower", prop="C10", what="canonical form no longer lower-cases the MX exchange name (Sign and Verify still agree with each other)",
      files={"dnssec.go": [("\t\t\tx.Mx = CanonicalName(x.Mx)\n", "\t\t\tx.Mx = Fqdn(x.Mx)\n")]}),
 dict(id="C10-soa-mbox-nolower", prop="C10", what="canonical form lower-cases only the first of the two SOA names",
      files={"dnssec.go": [("\t\t\tx.Ns = CanonicalName(x.Ns)\n\t\t\tx.Mbox = CanonicalName(x.Mbox)\n\t\tcase *MB:", "\t\t\tx.Ns = CanonicalName(x.Ns)\n\t\tcase *MB:")]}),
 dict(id="C10-sort-whole-wire", prop="C10", what="RRs ordered by the whole wire RR (so by RDLENGTH first) instead of by RDATA",
      files={"dnssec.go": [("\t_, ioff, _ := UnpackDomainName(p[i], 0)\n\t_, joff, _ := UnpackDomainName(p[j], 0)\n\treturn bytes.Compare(p[i][ioff+10:], p[j][joff+10:]) < 0",
                            "\treturn bytes.Compare(p[i], p[j]) < 0")]}),
 dict(id="C10-no-dedup", prop="C10", what="duplicate records are no longer suppressed in the signed data",
      files={"dnssec.go": [("\t\tif i > 0 && bytes.Equal(wire, wires[i-1]) {", "\t\tif false && i > 0 && bytes.Equal(wire, wires[i-1]) {")]}),
 dict(id="C10-wildcard-off-by-one", prop="C10", what="wildcard owner reconstruction keeps one label too many",
      files={"dnssec.go": [("labels[len(labels)-int(s.Labels):]", "labels[len(labels)-int(s.Labels)-1:]")]}),
 dict(id="C10-no-protocol-check", prop="C10", what="Verify no longer requires DNSKEY protocol 3",
      files={"dnssec.go": [("\tif k.Protocol != 3 {\n\t\treturn ErrKey\n\t}", "\tif false {\n\t\treturn ErrKey\n\t}")]}),
 dict(id="C10-no-zonekey-check", prop="C10", what="Verify no longer requires the zone-key flag",
      files={"dnssec.go": [("\tif k.Flags&ZONE == 0 {\n\t\treturn ErrKey\n\t}", "\tif false {\n\t\treturn ErrKey\n\t}")]}),
 dict(id="C10-ttl-not-substituted", prop="C10", what="signed data uses each record's current TTL instead of the RRSIG's original TTL",
      files={"dnssec.go": [("\t\th.Ttl = s.OrigTtl\n", "\t\t_ = s.OrigTtl\n")]}),
 dict(id="C10-type-covered-unchecked", prop="C10", what="Verify no longer compares the RRset type with TypeCovered",
      files={"dnssec.go": [("\t\th0.Rrtype != rr.TypeCovered ||\n", "")]}),
]
