#!/usr/bin/env python3
"""Mutation self-test: each mutant is a realistic property-breaking edit of one /repo file, applied
through `go build -overlay` (never written into /repo). For each mutant: (a) the repository's own test
suite must still pass, (b) the property's quick check must exit 1 with a VIOLATION line.
usage: selftest.py [-k substr] [--no-baseline] [--tier quick]
Results: /verif/selftest/results.json"""
import json, os, subprocess, sys, tempfile, shutil, time, argparse
sys.path.insert(0, os.path.dirname(__file__))
from mutants import MUTANTS
ENV = dict(os.environ, GOFLAGS="-mod=mod", GOPROXY="off", GOTOOLCHAIN="auto")
ENV.pop("GOSUMDB", None)

def run(cmd, cwd, timeout=1800):
    p = subprocess.run(cmd, cwd=cwd, env=ENV, stdout=subprocess.PIPE, stderr=subprocess.STDOUT, text=True, timeout=timeout)
    return p.returncode, p.stdout

def main():
    ap = argparse.ArgumentParser()
    ap.add_argument("-k", default="")
    ap.add_argument("--no-baseline", action="store_true")
    ap.add_argument("--tier", default="quick")
    a = ap.parse_args()
    results = []
    resfile = "/verif/selftest/results.json"
    old = {}
    if os.path.exists(resfile):
        for r in json.load(open(resfile)): old[r["id"]] = r
    for m in MUTANTS:
        if a.k and a.k not in m["id"]: continue
        tmp = tempfile.mkdtemp(prefix="mut-")
        try:
            ov = {}
            for f, edits in m["files"].items():
                src = open("/repo/" + f).read()
                for o, n in edits:
                    if src.count(o) != 1:
                        raise SystemExit("mutant %s: pattern occurs %d times in %s: %r" % (m["id"], src.count(o), f, o))
                    src = src.replace(o, n)
                open(os.path.join(tmp, os.path.basename(f)), "w").write(src)
                ov["/repo/" + f] = os.path.join(tmp, os.path.basename(f))
            ovf = os.path.join(tmp, "overlay.json"); json.dump({"Replace": ov}, open(ovf, "w"))
            res = {"id": m["id"], "property": m["prop"], "what": m["what"]}
            if not a.no_baseline:
                rc, out = run(["go", "test", "-overlay", ovf, "-vet=off", "-count=1", "./..."], "/repo")
                res["baseline_passes"] = rc == 0
                if rc != 0: res["baseline_tail"] = out[-1500:]
            elif m["id"] in old and "baseline_passes" in old[m["id"]]:
                res["baseline_passes"] = old[m["id"]]["baseline_passes"]
            root = os.path.join(tmp, "root"); os.makedirs(root + "/evidence")
            shutil.copy("/verif/known_findings.txt", root)
            t0 = time.time()
            rc, out = run(["/verif/run.sh", m["prop"], a.tier, "-root", root], "/verif", ) if False else (None, None)
            env2 = dict(ENV, VERIF_OVERLAY=ovf, VERIF_OUT_ROOT=root, VERIF_BIN=os.path.join(tmp, "bin"))
            p = subprocess.run(["/verif/run.sh", m["prop"], a.tier] + m.get("args", []), cwd="/verif", env=env2, stdout=subprocess.PIPE, stderr=subprocess.STDOUT, text=True, timeout=3600)
            res["check_exit"] = p.returncode
            res["detected"] = p.returncode == 1 and "VIOLATION property=" + m["prop"] in p.stdout
            if m.get("expect_silent"):
                # a harmless change: the check must stay quiet
                res["expect_silent"] = True
                res["detected"] = p.returncode == 0
            res["wall_s"] = round(time.time() - t0, 1)
            keys = [l.strip() for l in p.stdout.splitlines() if l.strip().startswith("key=")]
            res["keys"] = keys[:6]
            if not res["detected"]: res["tail"] = p.stdout[-1500:]
            print("%-40s %s baseline=%s detected=%s %.0fs %s" % (m["id"], m["prop"], res.get("baseline_passes"), res["detected"], res["wall_s"], keys[:2]))
            results.append(res)
        finally:
            shutil.rmtree(tmp, ignore_errors=True)
    for r in results: old[r["id"]] = r
    json.dump(sorted(old.values(), key=lambda r: r["id"]), open(resfile, "w"), indent=1)
    bad = [r["id"] for r in results if not r["detected"] or r.get("baseline_passes") is False]
    print("mutants run: %d, not detected or baseline-failing: %s" % (len(results), bad))
    sys.exit(1 if bad else 0)
main()
