#!/bin/bash
# usage: run.sh <Cnn> <quick|thorough> [extra vcheck flags]
#        run.sh <Cnn> --replay <file>
# Rebuilds the harness against /repo's current working tree, runs the check for one property, writes
# /verif/evidence/<Cnn>.json. Exit 0: held (KNOWN-FINDING lines possible); 1: VIOLATION; 2: internal error.
set -u
ROOT=$(cd "$(dirname "$0")" && pwd)
. "$ROOT/env.sh"
prop=${1:?property id}; shift
mode=${1:-quick}; shift || true
OUT=${VERIF_OUT_ROOT:-$ROOT}      # self-test only: where evidence/replays go
BIN=${VERIF_BIN:-$ROOT/bin}        # self-test only: separate binaries for mutated builds
OVL=${VERIF_OVERLAY:+-overlay=$VERIF_OVERLAY}   # self-test only: mutated /repo files
mkdir -p "$BIN" "$OUT/evidence" "$OUT/replays"
build() { # build <pkg> <out> [flags...]
  local pkg=$1 out=$2; shift 2
  local tmp="$out.$$"
  if ! (cd "$ROOT/harness" && go build $OVL "$@" -o "$tmp" "$pkg" 2>"$tmp.err"); then
    # development aid: untracked work-in-progress files of another check must not block this one —
    # retry with the files of the registered checks only (cmd/vcheck/REGISTERED)
    files=$(cd "$ROOT/harness" && sed "s#^#$pkg/#" "$pkg/REGISTERED")
    (cd "$ROOT/harness" && go build $OVL "$@" -o "$tmp" $files) || { cat "$tmp.err" >&2; echo "BUILD FAILED: $pkg" >&2; rm -f "$tmp" "$tmp.err"; exit 2; }
  fi
  rm -f "$tmp.err"
  mv -f "$tmp" "$out"
}
# engine E2 (controlled scheduler): instrument server.go / serve_mux.go from the working tree, build with the overlay
build_e2() {
  build ./cmd/instrument "$BIN/instrument"
  mkdir -p "$BIN/e2"
  python3 "$ROOT/harness/mkoverlay.py" "$BIN/e2" "$BIN/instrument" || { echo "INSTRUMENTATION FAILED" >&2; exit 2; }
  local tmp="$BIN/vsched.$$"
  (cd "$ROOT/harness" && go build -tags verif -overlay "$BIN/e2/overlay.json" -o "$tmp" ./cmd/vsched) || { echo "BUILD FAILED: cmd/vsched" >&2; rm -f "$tmp"; exit 2; }
  mv -f "$tmp" "$BIN/vsched"
}
export VERIF_GOMAXPROCS=${VERIF_GOMAXPROCS:-}
case "$prop" in
  C13)        # E2 only
    OVL=""; build_e2
    if [ "$mode" = "--replay" ]; then exec "$BIN/vsched" -prop "$prop" -replay "$1"; fi
    VERIF_GOMAXPROCS=1 "$BIN/vsched" -prop "$prop" -tier "$mode" -root "$OUT" "$@"; rc=$?
    if [ "$mode" = thorough ] && [ $rc -eq 0 ]; then
      # supplementary (not the deciding step): the repository's own server tests free-running under the race
      # detector, for memory locations the rewriter does not instrument and for the *net.UDPConn / TLS paths the
      # scheduler cannot host. Only a race report counts; a test that fails for load reasons does not.
      log="$OUT/evidence/C13.race.log"
      (cd /repo && go test ${VERIF_OVERLAY:+-overlay=$VERIF_OVERLAY} -race -vet=off -count=1 -run 'Shutdown|Serving|InProgress|StartStop|HandlerClose|ResponseAfterClose|ResponseDoubleClose' . >"$log" 2>&1)
      if grep -q "WARNING: DATA RACE" "$log"; then
        echo "VIOLATION property=C13 replay=$log"; echo "  key=race-detector/free-running-server-tests (see the log)"; rc=1
      else
        echo "supplementary -race pass over the repository's server tests: no race reported"
      fi
    fi
    exit $rc;;
  C12|C14)    # E1/E3 part in vcheck, then the E2 part appended to the same evidence file
    build ./cmd/vcheck "$BIN/vcheck"
    ( OVL=""; build_e2 )
    if [ "$mode" = "--replay" ]; then
      if grep -q '"sub": "e2/' "$1" 2>/dev/null; then exec "$BIN/vsched" -prop "$prop" -replay "$1"; else exec "$BIN/vcheck" -prop "$prop" -replay "$1"; fi
    fi
    "$BIN/vcheck" -prop "$prop" -tier "$mode" -root "$OUT" "$@"; rc1=$?
    VERIF_GOMAXPROCS=1 "$BIN/vsched" -prop "$prop" -tier "$mode" -root "$OUT" -append "$@"; rc2=$?
    if [ $rc1 -eq 2 ] || [ $rc2 -eq 2 ]; then exit 2; fi
    if [ $rc1 -ne 0 ] || [ $rc2 -ne 0 ]; then exit 1; fi
    exit 0;;
esac
build ./cmd/vcheck "$BIN/vcheck"
if [ "$mode" = "--replay" ]; then
  exec "$BIN/vcheck" -prop "$prop" -replay "$1"
fi
if [ "$prop" = C02 ] && [ $# -eq 0 ]; then
  "$BIN/vcheck" -prop "$prop" -tier "$mode" -root "$OUT"; rc=$?
  # supplementary (not the deciding step): the decode / print / measure / copy / pack / name functions run from
  # several goroutines on their own values under the race detector (harness/racepass). A single-threaded
  # enumeration cannot see package-level state such a function starts to share; only a race report counts.
  log="$OUT/evidence/C02.race.log"
  (cd "$ROOT/harness" && go test ${VERIF_OVERLAY:+-overlay=$VERIF_OVERLAY} -race -vet=off -count=1 ./racepass >"$log" 2>&1)
  if grep -q "WARNING: DATA RACE" "$log"; then
    echo "VIOLATION property=C02 replay=$log"; echo "  key=race-detector/pure-functions (see the log)"; [ $rc -eq 0 ] && rc=1
  else
    echo "supplementary -race pass over the pure decode/print/pack functions: no race reported"
  fi
  exit $rc
fi
exec "$BIN/vcheck" -prop "$prop" -tier "$mode" -root "$OUT" "$@"
