#!/bin/bash
# usage: run.sh <Cnn> <quick|thorough> [extra vcheck flags]
#        run.sh <Cnn> --replay <file>
# Rebuilds the harness against /repo's current working tree, runs the check for one property, writes
# /verif/evidence/<Cnn>.json. Exit 0: held (KNOWN-FINDING lines possible); 1: VIOLATION; 2: internal error.
set -u
ROOT=$(cd "$(dirname "$0")" && pwd)
. "$ROOT/env.sh"
prop=${1:?property id}; shift
mode=${1:-quick}; shift || true
OUT=${VERIF_OUT_ROOT:-$ROOT}      # self-test only: where evidence/replays go
BIN=${VERIF_BIN:-$ROOT/bin}        # self-test only: separate binaries for mutated builds
OVL=${VERIF_OVERLAY:+-overlay=$VERIF_OVERLAY}   # self-test only: mutated /repo files
mkdir -p "$BIN" "$OUT/evidence" "$OUT/replays"
build() { # build <pkg> <out> [flags...]
  local pkg=$1 out=$2; shift 2
  local tmp="$out.$$"
  if ! (cd "$ROOT/harness" && go build $OVL "$@" -o "$tmp" "$pkg" 2>"$tmp.err"); then
    # development aid: untracked work-in-progress files of another check must not block this one —
    # retry with the files of the registered checks only (cmd/vcheck/REGISTERED)
    files=$(cd "$ROOT/harness" && sed "s#^#$pkg/#" "$pkg/REGISTERED")
    (cd "$ROOT/harness" && go build $OVL "$@" -o "$tmp" $files) || { cat "$tmp.err" >&2; echo "BUILD FAILED: $pkg" >&2; rm -f "$tmp" "$tmp.err"; exit 2; }
  fi
  rm -f "$tmp.err"
  mv -f "$tmp" "$out"
}
case "$prop" in
  C12s|C13|C14s) echo "not yet" >&2; exit 2;;
esac
build ./cmd/vcheck "$BIN/vcheck"
if [ "$mode" = "--replay" ]; then
  exec "$BIN/vcheck" -prop "$prop" -replay "$1"
fi
exec "$BIN/vcheck" -prop "$prop" -tier "$mode" -root "$OUT" "$@"
